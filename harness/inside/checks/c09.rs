//! C09 — what one side encodes, the other side's parser decodes to the same objects.
//! The library's parser (first pass, iteration via its decode formatter, typed extraction)
//! is compared with the reference header walker and measurement decoders of the harness on
//! (a) everything the real master and the real outstation put on the wire in generated
//! sessions and (b) generated / truncated / extended / mutated fragments.

use crate::app::parse::options::ParseOptions;
use crate::app::parse::parser::{HeaderDetails, ObjectHeader, ParsedFragment};
use crate::verif::checks::c01::hostile_fragment;
use crate::verif::checks::c10 as vals;
use crate::verif::out::{self, J};
use crate::verif::rec::{Item, RVal, Rec, Recorder};
use crate::verif::refcodec::app as ra;
use crate::verif::refcodec::app::{Meas, Val};
use crate::verif::rng::Rng;
use crate::verif::sim::master::*;
use crate::verif::sim::outstation::*;
use crate::verif::sim::*;
use crate::verif::util::hex;
use crate::verif::ShardArgs;

const P: &str = "C09";

struct HeaderText<'a>(&'a ObjectHeader<'a>);
impl std::fmt::Display for HeaderText<'_> {
    fn fmt(&self, f: &mut std::fmt::Formatter) -> std::fmt::Result {
        self.0.format(true, f)
    }
}

#[derive(Debug, Clone, PartialEq)]
struct LibHeader {
    g: u8,
    v: u8,
    q: u8,
    start: u32,
    stop: u32,
    count: u32,
    /// indices printed by iterating the header (None: count-only items)
    indices: Vec<u32>,
    items: usize,
}

#[derive(Debug)]
pub enum Outcome {
    HeaderRejected,
    ObjectsRejected,
    Accepted {
        headers: usize,
        objects: usize,
        measurements: usize,
    },
}

type Viol = (String, String, String);

fn lib_headers(p: &ParsedFragment) -> Option<Vec<LibHeader>> {
    let objs = p.objects.ok()?;
    let mut out = vec![];
    for h in objs.iter() {
        let (g, v) = h.variation.to_group_and_var();
        let q = h.details.qualifier().as_u8();
        let (start, stop, count) = match &h.details {
            HeaderDetails::AllObjects(_) => (0, 0, 0),
            HeaderDetails::OneByteStartStop(a, b, _) => (
                *a as u32,
                *b as u32,
                (*b as u32).wrapping_sub(*a as u32).wrapping_add(1),
            ),
            HeaderDetails::TwoByteStartStop(a, b, _) => (
                *a as u32,
                *b as u32,
                (*b as u32).wrapping_sub(*a as u32).wrapping_add(1),
            ),
            HeaderDetails::OneByteCount(c, _) => (0, 0, *c as u32),
            HeaderDetails::TwoByteCount(c, _) => (0, 0, *c as u32),
            HeaderDetails::OneByteCountAndPrefix(c, _) => (0, 0, *c as u32),
            HeaderDetails::TwoByteCountAndPrefix(c, _) => (0, 0, *c as u32),
            HeaderDetails::TwoByteFreeFormat(c, _) => (0, 0, *c as u32),
        };
        let text = format!("{}", HeaderText(&h));
        let mut indices = vec![];
        let mut items = 0usize;
        for line in text.lines().skip(1) {
            if let Some(rest) = line.strip_prefix("index: ") {
                let n: String = rest.chars().take_while(|c| c.is_ascii_digit()).collect();
                if let Ok(i) = n.parse::<u32>() {
                    indices.push(i);
                }
                items += 1;
            } else if !line.is_empty() {
                items += 1;
            }
        }
        out.push(LibHeader {
            g,
            v,
            q,
            start,
            stop,
            count,
            indices,
            items,
        });
    }
    Some(out)
}

fn rval_eq(r: &RVal, m: &Val) -> bool {
    match (r, m) {
        (RVal::Bool(a), Val::Bool(b)) => a == b,
        (RVal::DBit(a), Val::DBit(b)) => a == b,
        (RVal::U32(a), Val::U32(b)) => a == b,
        (RVal::U32(a), Val::U16(b)) => *a == *b as u32,
        (RVal::F64(a), Val::I32(b)) => *a == *b as f64,
        (RVal::F64(a), Val::I16(b)) => *a == *b as f64,
        (RVal::F64(a), Val::F32(b)) => {
            a.to_bits() == (*b as f64).to_bits() || (a.is_nan() && b.is_nan())
        }
        (RVal::F64(a), Val::F64(b)) => a.to_bits() == b.to_bits() || (a.is_nan() && b.is_nan()),
        (RVal::F64(a), Val::U32(b)) => *a == *b as f64,
        (RVal::F64(a), Val::U16(b)) => *a == *b as f64,
        (RVal::Bytes(a), Val::Bytes(b)) => a == b,
        (RVal::U8(a), Val::U8(b)) => a == b,
        _ => false,
    }
}

/// typed extraction of the library vs the reference measurement decoders
fn compare_measurements(recs: &[Rec], meas: &[Meas], times_defined: bool) -> Result<usize, Viol> {
    // the reference decodes command events and dead-bands too; the recorder flattens them differently: compare the common kinds
    let keep = |p: ra::PType| {
        !matches!(
            p,
            ra::PType::BinaryCommandEvent
                | ra::PType::AnalogCommandEvent
                | ra::PType::AnalogDeadBand
                | ra::PType::UnsignedInteger
        )
    };
    let rs: Vec<&Rec> = recs.iter().filter(|r| keep(r.ptype)).collect();
    let ms: Vec<&Meas> = meas.iter().filter(|m| keep(m.ptype)).collect();
    if rs.len() != ms.len() {
        return Err((
            "extraction_count".into(),
            "count".into(),
            format!(
                "extraction delivered {} measurements, the reference decodes {}",
                rs.len(),
                ms.len()
            ),
        ));
    }
    for (r, m) in rs.iter().zip(ms.iter()) {
        let sig = format!("g{}v{}", m.group, m.var);
        if r.ptype != m.ptype || r.group != m.group || r.var != m.var {
            return Err((
                "extraction_type".into(),
                sig,
                format!("extraction delivered {r:?}, reference {m:?}"),
            ));
        }
        if r.index as u32 != m.index {
            return Err((
                "extraction_index".into(),
                sig,
                format!(
                    "index {} delivered, {} on the wire ({m:?})",
                    r.index, m.index
                ),
            ));
        }
        if !rval_eq(&r.val, &m.val) {
            return Err((
                "extraction_value".into(),
                sig,
                format!("value {:?} delivered, {:?} on the wire", r.val, m.val),
            ));
        }
        if let Some(f) = m.flags {
            // the reference masks the state bits of binary types out of the octet; the library keeps them in
            let mask = match m.ptype {
                ra::PType::Binary | ra::PType::BinaryOutputStatus => 0x7F,
                ra::PType::DoubleBit => 0x3F,
                _ => 0xFF,
            };
            if r.flags & mask != f & mask {
                return Err((
                    "extraction_flags".into(),
                    sig,
                    format!("flags {:#04x} delivered, {f:#04x} on the wire", r.flags),
                ));
            }
        }
        match (r.time, m.time) {
            _ if !times_defined && m.rel_time.is_some() => {}
            (None, None) => {}
            (Some((_, a)), Some(b)) if a == b => {}
            (a, b) => {
                // relative time without a preceding common time: the library delivers no time
                if !(m.rel_time.is_some() && b.is_none() && a.is_none()) {
                    return Err((
                        "extraction_time".into(),
                        sig,
                        format!("time {a:?} delivered, {b:?} on the wire ({m:?})"),
                    ));
                }
            }
        }
    }
    Ok(rs.len())
}

/// compare the library's view of a fragment with the reference's
pub fn compare(f: &[u8], zl: bool, must_accept: bool) -> Result<Outcome, Viol> {
    let opts = ParseOptions {
        parse_zero_length_strings: zl,
    };
    let p = match ParsedFragment::parse(opts, f) {
        Ok(p) => p,
        Err(e) => {
            if must_accept {
                return Err((
                    "encoder_output_rejected".into(),
                    "header".into(),
                    format!("the parser rejects the fragment header: {e:?}"),
                ));
            }
            return Ok(Outcome::HeaderRejected);
        }
    };
    let func = f[1];
    let is_rsp = func == ra::F_RESPONSE || func == ra::F_UNSOL_RESPONSE;
    // header fields
    if p.control.seq.value() != f[0] & 0x0F
        || p.control.fir != (f[0] & 0x80 != 0)
        || p.control.fin != (f[0] & 0x40 != 0)
        || p.control.con != (f[0] & 0x20 != 0)
        || p.control.uns != (f[0] & 0x10 != 0)
    {
        return Err((
            "control_field".into(),
            "control".into(),
            format!("control octet {:#04x} parsed as {:?}", f[0], p.control),
        ));
    }
    if p.function.as_u8() != func {
        return Err((
            "function".into(),
            "function".into(),
            format!("function {func} parsed as {:?}", p.function),
        ));
    }
    let data = if is_rsp { &f[4..] } else { &f[2..] };
    if p.raw_objects != data {
        return Err((
            "raw_objects".into(),
            "raw".into(),
            format!(
                "raw objects are {} bytes, {} follow the header",
                p.raw_objects.len(),
                data.len()
            ),
        ));
    }
    if is_rsp {
        if let Some(iin) = p.iin {
            if iin.iin1.value != f[2] || iin.iin2.value != f[3] {
                return Err((
                    "iin".into(),
                    "iin".into(),
                    format!(
                        "IIN {:02x}{:02x} parsed as {:02x}{:02x}",
                        f[2], f[3], iin.iin1.value, iin.iin2.value
                    ),
                ));
            }
        } else {
            return Err((
                "iin".into(),
                "missing".into(),
                "response parsed without IIN".into(),
            ));
        }
    }
    let w = ra::walk(func, data, zl);
    let Some(lh) = lib_headers(&p) else {
        if must_accept {
            return Err((
                "encoder_output_rejected".into(),
                format!("{:?}", p.objects.err()).chars().take(60).collect(),
                format!(
                    "the parser rejects the objects: {:?} (reference: {:?})",
                    p.objects.err(),
                    w.error
                ),
            ));
        }
        if w.error.is_none() && w.defined {
            out::count("library_stricter_than_reference", 1);
        }
        return Ok(Outcome::ObjectsRejected);
    };
    // device attributes (group 0) are compared at header level only
    if lh.iter().any(|h| h.g == 0) {
        out::count("attribute_fragments_not_judged", 1);
        return Ok(Outcome::Accepted {
            headers: lh.len(),
            objects: 0,
            measurements: 0,
        });
    }
    // an accepted free-format header carries exactly one object (that is what iterating it yields)
    if let Some(h) = lh.iter().find(|h| h.q == ra::Q_FREE16 && h.count != 1) {
        return Err(("free_format_count".into(), format!("g{}v{}", h.g, h.v), format!("the parser accepts a free-format header that declares {} objects; it holds exactly one", h.count)));
    }
    // the library accepted: the bytes must be exactly what the headers imply
    if let Some(e) = &w.error {
        match e {
            ra::WalkErr::Truncated
            | ra::WalkErr::InvalidRange
            | ra::WalkErr::ZeroLengthOctets
            | ra::WalkErr::BadFreeFormat => {
                if w.defined || matches!(e, ra::WalkErr::Truncated | ra::WalkErr::InvalidRange) {
                    return Err(("accepted_malformed".into(), format!("{e:?}").chars().take(16).collect(), format!("the parser accepts {} object bytes that the reference rejects: {e:?} (library headers {lh:?})", data.len())));
                }
            }
            _ => {
                out::count("library_more_lenient_than_reference", 1);
            }
        }
        return Ok(Outcome::Accepted {
            headers: lh.len(),
            objects: 0,
            measurements: 0,
        });
    }
    if lh.len() != w.headers.len() {
        return Err((
            "header_count".into(),
            "count".into(),
            format!(
                "{} headers parsed, reference finds {}",
                lh.len(),
                w.headers.len()
            ),
        ));
    }
    let mut nobj = 0usize;
    for (l, r) in lh.iter().zip(w.headers.iter()) {
        let sig = format!("g{}v{}q{:02x}", r.group, r.var, r.qual);
        if (l.g, l.v, l.q) != (r.group, r.var, r.qual) {
            return Err((
                "header_identity".into(),
                sig,
                format!("header parsed as g{}v{} q{:02x}", l.g, l.v, l.q),
            ));
        }
        match r.qual {
            ra::Q_RANGE8 | ra::Q_RANGE16 => {
                if (l.start, l.stop) != (r.start, r.stop) {
                    return Err((
                        "header_range".into(),
                        sig,
                        format!(
                            "range parsed as [{}, {}], encoded [{}, {}]",
                            l.start, l.stop, r.start, r.stop
                        ),
                    ));
                }
            }
            ra::Q_ALL => {}
            _ => {
                if l.count != r.count {
                    return Err((
                        "header_count_field".into(),
                        sig,
                        format!("count parsed as {}, encoded {}", l.count, r.count),
                    ));
                }
            }
        }
        // iteration
        if r.qual == ra::Q_FREE16 {
            out::count("free_format_headers_agree", 1);
            if r.group == 70 && r.var == 7 {
                // a file descriptor is 20 octets plus the file name; nothing may follow inside the object
                if let Some(o) = r.objs.first() {
                    if o.bytes.len() >= 4 {
                        let name = u16::from_le_bytes([o.bytes[2], o.bytes[3]]) as usize;
                        if o.bytes.len() != 20 + name {
                            return Err(("free_format_length".into(), sig, format!("the parser accepts a file descriptor of {} octets whose fields account for {}", o.bytes.len(), 20 + name)));
                        }
                        out::count("file_descriptor_exact_ok", 1);
                    }
                }
            }
            continue;
        }
        let want = r.objs.len();
        let indexed: Vec<u32> = r.objs.iter().filter_map(|o| o.index).collect();
        if !indexed.is_empty() || (want == 0 && l.indices.is_empty()) {
            if l.indices != indexed {
                let rule = if l.indices.len() != indexed.len() {
                    "iteration_count"
                } else {
                    "iteration_index"
                };
                return Err((rule.into(), sig, format!("iterating yields {} objects with indices {:?}..., the header declares {} with indices {:?}...", l.indices.len(), &l.indices[..l.indices.len().min(6)], indexed.len(), &indexed[..indexed.len().min(6)])));
            }
        } else if l.items != want && !(r.group == 0) {
            return Err((
                "iteration_count".into(),
                sig,
                format!(
                    "iterating yields {} objects, the header declares {want}",
                    l.items
                ),
            ));
        }
        nobj += want;
    }
    // typed extraction of measurement objects (responses)
    let mut nmeas = 0;
    if is_rsp {
        if let Ok((meas, _)) = ra::decode_response_measurements(data) {
            let mut rec = Recorder::new();
            if let Ok(objs) = p.objects {
                crate::master::extract::extract_measurements_inner(objs, &mut rec);
            }
            let recs: Vec<Rec> = rec
                .take()
                .into_iter()
                .filter_map(|i| if let Item::M(r) = i { Some(r) } else { None })
                .collect();
            // a common-time header with other than one object: which one applies is not defined
            let times_defined = !w.headers.iter().any(|h| h.group == 51 && h.count != 1);
            nmeas = compare_measurements(&recs, &meas, times_defined)?;
        }
    }
    Ok(Outcome::Accepted {
        headers: lh.len(),
        objects: nobj,
        measurements: nmeas,
    })
}

fn report(a: &ShardArgs, part: &str, idx: u64, v: &Viol, f: &[u8], extra: &[String]) {
    out::violation(
        P,
        &format!("C09.{}", v.0),
        &format!("{part}|{}", v.1),
        J::obj(vec![
            ("why", J::s(v.2.clone())),
            ("fragment", J::hex(&f[..f.len().min(600)])),
            (
                "context",
                J::arr(extra.iter().rev().take(12).rev().cloned()),
            ),
        ]),
        J::obj(vec![
            ("check", J::s("c09")),
            ("seed", J::U(a.seed)),
            ("shard", J::U(a.shard)),
            ("nshards", J::U(a.nshards)),
            ("scenario", J::U(idx)),
            ("part", J::s(part)),
        ]),
    );
}

fn tally(part: &str, o: &Outcome) {
    match o {
        Outcome::HeaderRejected => out::count(&format!("{part}_header_rejected"), 1),
        Outcome::ObjectsRejected => out::count(&format!("{part}_objects_rejected"), 1),
        Outcome::Accepted {
            headers,
            objects,
            measurements,
        } => {
            out::count(&format!("{part}_fragments_agree"), 1);
            out::count(&format!("{part}_headers_agree"), *headers as u64);
            out::count(&format!("{part}_objects_agree"), *objects as u64);
            out::count(&format!("{part}_measurements_agree"), *measurements as u64);
        }
    }
}

/// a fragment with one free-format (group 70) object: valid body, count and length octets varied
fn file_fragment(r: &mut Rng) -> Vec<u8> {
    let v = *r.pick(&[4u8, 5, 6, 7, 7]);
    let mut body: Vec<u8> = vec![];
    if v == 7 {
        // file descriptor: name offset (always 20), name length, type, size, time of creation, permissions, request id, name
        let name: Vec<u8> = (0..r.range(0, 12))
            .map(|_| b'a' + r.below(26) as u8)
            .collect();
        body.extend_from_slice(&20u16.to_le_bytes());
        body.extend_from_slice(&(name.len() as u16).to_le_bytes());
        body.extend_from_slice(&(r.below(2) as u16).to_le_bytes());
        body.extend_from_slice(&(r.u64() as u32).to_le_bytes());
        body.extend_from_slice(&ra::time48(r.u64() & 0xFFFF_FFFF_FFFF));
        body.extend_from_slice(&(r.u16() & 0x1FF).to_le_bytes());
        body.extend_from_slice(&r.u16().to_le_bytes());
        body.extend(name);
        // sometimes bytes beyond the name but inside the declared object length
        if r.chance(1, 3) {
            let k = r.range(1, 3) as usize;
            body.extend(r.bytes(k));
        }
    } else {
        body.extend_from_slice(&(r.u64() as u32).to_le_bytes()); // file handle
    }
    match v {
        7 => {}
        4 => {
            body.extend_from_slice(&(r.u64() as u32).to_le_bytes()); // size
            body.extend_from_slice(&r.u16().to_le_bytes()); // max block size
            body.extend_from_slice(&r.u16().to_le_bytes()); // request id
            body.push(r.below(6) as u8); // status
        }
        5 => {
            body.extend_from_slice(&(r.u64() as u32).to_le_bytes()); // block number
            let n = r.range(0, 20) as usize;
            body.extend(r.bytes(n));
        }
        _ => {
            body.extend_from_slice(&(r.u64() as u32).to_le_bytes()); // block number
            body.push(r.below(6) as u8); // status
        }
    }
    let count = *r.pick(&[1u8, 1, 1, 0, 2, 255]);
    let len = match r.below(6) {
        0 => body.len() as u16 + 1,
        1 => (body.len() as u16).saturating_sub(1),
        _ => body.len() as u16,
    };
    let (ctrl, func) = *r.pick(&[
        (0xC3u8, ra::F_RESPONSE),
        (0xC3, 25),
        (0xC3, ra::F_WRITE),
        (0xC3, ra::F_READ),
        (0xC3, 26),
    ]);
    let mut f = vec![ctrl, func];
    if func == ra::F_RESPONSE {
        f.extend_from_slice(&[0, 0]);
    }
    f.extend_from_slice(&[70, v, 0x5B, count]);
    f.extend_from_slice(&len.to_le_bytes());
    f.extend(body);
    f
}

/// Part P: generated and mutated fragments
fn strictness(a: &ShardArgs) {
    let n = a.n(120_000);
    for i in 0..n {
        if i % a.nshards != a.shard {
            continue;
        }
        if i % 20_000 == 0 {
            out::progress(&format!("strictness {i}"));
        }
        let mut rr = a.rng(&format!("c09/p/{i}"));
        let max = *rr.pick(&[40usize, 300, 2048]);
        let f = hostile_fragment(&mut rr, max);
        if f.len() < 2 {
            continue;
        }
        let f = if i % 16 == 5 {
            file_fragment(&mut rr)
        } else {
            f
        };
        out::eval(1);
        for zl in [false, true] {
            match compare(&f, zl, false) {
                Ok(o) => {
                    tally("P", &o);
                    if let Outcome::Accepted { .. } = o {
                        out::distinct(&format!("P/f{}/len{}", f[1], f.len().min(400) / 40));
                    }
                }
                Err(v) => report(a, "P", i, &v, &f, &[]),
            }
        }
    }
}

/// mutations of a valid fragment: truncation, extension, count / range / size-relevant octet changes
fn mutate_and_compare(a: &ShardArgs, part: &str, idx: u64, r: &mut Rng, f: &[u8], ctx: &[String]) {
    for _ in 0..6 {
        let mut g = f.to_vec();
        match r.below(4) {
            0 if g.len() > 3 => {
                let k = r.range(2, g.len() as u64 - 1) as usize;
                g.truncate(k);
            }
            1 => {
                let n = r.range(1, 4) as usize;
                g.extend(r.bytes(n));
            }
            2 if g.len() > 4 => {
                let k = r.range(2, g.len() as u64 - 1) as usize;
                g[k] ^= 1 << r.below(8);
            }
            _ if g.len() > 4 => {
                let k = r.range(2, g.len() as u64 - 1) as usize;
                g[k] = *r.pick(&[0u8, 1, 0xFF, 0x7F, 0x80]);
            }
            _ => {}
        }
        out::eval(1);
        match compare(&g, false, false) {
            Ok(o) => tally(&format!("{part}_mutated"), &o),
            Err(v) => report(a, &format!("{part}-mutated"), idx, &v, &g, ctx),
        }
    }
}

/// Part A1: everything the real master encodes
async fn master_requests(a: &ShardArgs, idx: u64) {
    let mut r = a.rng(&format!("c09/m/{idx}"));
    let mut mc = MasterCfg::default();
    mc.tx = *r.pick(&[249usize, 2048]);
    let mut ac = if r.bool() {
        AssocCfg::default_like(1024)
    } else {
        AssocCfg::quiet(1024)
    };
    ac.response_timeout_ms = 100;
    ac.auto_time_sync = *r.pick(&[None, Some(0u8), Some(1), Some(2)]);
    let mut sim = MasterSim::start(mc, &[ac]).await;
    let mut ctx: Vec<String> = vec![];
    let vars = ra::all_variations();
    for _ in 0..r.range(2, 8) {
        // what the user asks for, and (for reads) the header list it must produce
        let mut expect: Option<Vec<(u8, u8, u8, u32, u32)>> = None;
        let mut expect_open: Option<(String, u16, u32, u32, u16, u16)> = None;
        let mut expect_cmd: Option<Vec<(u8, u16, bool, u32)>> = None;
        // (function code, the object expected on the wire, offsets of octets that are the library's own and not compared)
        let mut expect_file: Option<(u8, Vec<u8>, Vec<usize>)> = None;
        let req = match r.below(10) {
            9 => {
                // file requests carry strings with explicit sizes: plain, empty and multi-octet characters
                let texts = [
                    "some/file.txt",
                    "",
                    "données/température_°C.csv",
                    "文件/数据.bin",
                    "ü",
                    "a-rather-long-name-with-😀-in-it-and-more-text-after-the-emoji.dat",
                ];
                if r.chance(1, 4) {
                    // WRITE of one file block / CLOSE_FILE / authentication: few fields, each in its place
                    match r.below(3) {
                        0 => {
                            let (n, last, len) = (r.below(70_000) as u32, r.bool(), r.usize_below(200));
                            let mut o = vec![70u8, 5, 0x5B, 1];
                            o.extend(((8 + len) as u16).to_le_bytes());
                            o.extend(0x0102_0304u32.to_le_bytes());
                            o.extend((n | if last { 0x8000_0000 } else { 0 }).to_le_bytes());
                            o.extend(vec![0x5A; len]);
                            expect_file = Some((ra::F_WRITE, o, vec![]));
                            UserReq::FileWriteBlock(n, last, len)
                        }
                        1 => {
                            // handle, then size, block size, request id and status (not chosen by the caller, not compared)
                            let mut o = vec![70u8, 4, 0x5B, 1, 13, 0];
                            o.extend(0x0102_0304u32.to_le_bytes());
                            o.extend([0u8; 9]);
                            expect_file = Some((26, o, (10..19).collect()));
                            UserReq::FileClose
                        }
                        _ => {
                            let (user, pass) = (r.pick(&texts).to_string(), r.pick(&texts).to_string());
                            let (u, p) = (user.as_bytes(), pass.as_bytes());
                            let mut o = vec![70u8, 2, 0x5B, 1];
                            o.extend(((12 + u.len() + p.len()) as u16).to_le_bytes());
                            o.extend(12u16.to_le_bytes());
                            o.extend((u.len() as u16).to_le_bytes());
                            o.extend(((12 + u.len()) as u16).to_le_bytes());
                            o.extend((p.len() as u16).to_le_bytes());
                            o.extend([0u8; 4]); // authentication key: zero in a request
                            o.extend(u);
                            o.extend(p);
                            expect_file = Some((29, o, vec![]));
                            UserReq::FileNamed(2, String::new(), user, pass)
                        }
                    }
                } else if r.bool() {
                    // OPEN_FILE with every field chosen here: the request on the wire must carry these values in their places
                    let path = r.pick(&texts).to_string();
                    let bits = r.u16() & 0x1FF;
                    let (key, size) = (r.u32(), *r.pick(&[0u32, 1, 0xFFFF_FFFF, 123_456]));
                    let (mode, block) = (r.range(1, 3) as u16, *r.pick(&[1u16, 64, 512, 65535]));
                    expect_open = Some((path.clone(), bits, key, size, mode, block));
                    UserReq::FileOpenWith(path, bits, key, size, mode, block)
                } else {
                    UserReq::FileNamed(
                        r.below(5) as u8,
                        r.pick(&texts).to_string(),
                        r.pick(&texts).to_string(),
                        r.pick(&texts).to_string(),
                    )
                }
            }
            0 => UserReq::ReadClasses([r.bool(), r.bool(), r.bool(), true]),
            1 | 2 => {
                let mut hs = vec![];
                let mut ex = vec![];
                for _ in 0..r.range(1, 6) {
                    let (g, v) = *r.pick(&vars);
                    // octet strings are read with variation 0; dead-band reads use a concrete variation
                    if matches!(g, 70 | 0)
                        || (matches!(g, 110 | 111) && v != 0)
                        || (g == 34 && v == 0)
                    {
                        continue;
                    }
                    // supported combinations: limited counts for events and class objects, ranges for static objects
                    let k = if ra::is_event_group(g) || (g == 60 && v != 1) {
                        *r.pick(&[0u8, 3, 4])
                    } else if ra::is_static_group(g) {
                        *r.pick(&[0u8, 1, 2])
                    } else {
                        continue;
                    };
                    let (x, y): (u16, u16) = match k {
                        1 => {
                            let s = r.u8();
                            (s as u16, s.saturating_add(r.below(9) as u8) as u16)
                        }
                        2 => {
                            let s = *r.pick(&[0u16, 1, 255, 256, 65534, 65535, 1000]);
                            (s, s.saturating_add(r.below(9) as u16))
                        }
                        3 => (*r.pick(&[0u16, 1, 255]), 0),
                        4 => (*r.pick(&[0u16, 1, 255, 256, 65535]), 0),
                        _ => (0, 0),
                    };
                    hs.push((k, g, v, x, y));
                    ex.push(match k {
                        0 => (g, v, ra::Q_ALL, 0, 0),
                        1 => (g, v, ra::Q_RANGE8, x as u32, y as u32),
                        2 => (g, v, ra::Q_RANGE16, x as u32, y as u32),
                        3 => (g, v, ra::Q_COUNT8, x as u32, 0),
                        _ => (g, v, ra::Q_COUNT16, x as u32, 0),
                    });
                }
                if hs.is_empty() {
                    continue;
                }
                expect = Some(ex);
                UserReq::ReadHeaders(hs)
            }
            3 if sim.cfg.tx == 2048 && r.chance(1, 4) => {
                // one header with a large count (16-bit count beyond 255, 8-bit count at its limit)
                let wide = r.bool();
                let n = if wide {
                    r.range(200, 300)
                } else {
                    r.range(250, 255)
                };
                let kind = *r.pick(&[2u8, 1]);
                let objs: Vec<(u8, u16, bool, u32)> = (0..n)
                    .map(|k| {
                        (
                            kind,
                            if wide { 1000 + k as u16 } else { k as u16 },
                            wide,
                            r.u64() as u32,
                        )
                    })
                    .collect();
                expect_cmd = Some(objs.clone());
                UserReq::Command(false, objs)
            }
            3 | 4 => {
                let n = r.range(1, 5);
                let objs: Vec<(u8, u16, bool, u32)> = (0..n)
                    .map(|_| {
                        (
                            r.below(5) as u8,
                            *r.pick(&[0u16, 1, 255, 256, 65535]),
                            r.bool(),
                            r.u64() as u32,
                        )
                    })
                    .collect();
                expect_cmd = Some(objs.clone());
                UserReq::Command(r.bool(), objs)
            }
            5 => UserReq::TimeSync(r.below(3) as u8),
            6 => UserReq::WriteDeadBands((0..r.range(1, 5)).map(|_| (r.u16(), r.u16())).collect()),
            7 => r
                .pick(&[UserReq::ColdRestart, UserReq::WarmRestart])
                .clone(),
            _ => UserReq::EmptyResponse(*r.pick(&[7u8, 8, 9, 10, 20, 21, 22])),
        };
        ctx.push(format!("{req:?}"));
        sim.submit(0, req);
        settle().await;
        // take what the master wrote (several steps: each answered with an empty / echo response so that procedures continue)
        for _ in 0..6 {
            let rx = sim.collect();
            let frags: Vec<Vec<u8>> = rx
                .iter()
                .filter_map(|x| x.fragment().map(|f| f.to_vec()))
                .collect();
            if frags.is_empty() {
                break;
            }
            for f in &frags {
                out::eval(1);
                match compare(f, false, true) {
                    Ok(o) => {
                        tally("A1", &o);
                        out::distinct(&format!("A1/f{}", f[1]));
                        if (25..=29).contains(&f[1]) {
                            out::count("A1_file_requests_checked", 1);
                        }
                    }
                    Err(v) => report(a, "A1", idx, &v, f, &ctx),
                }
                // SELECT / OPERATE / DIRECT_OPERATE: the objects on the wire are the commands that were asked for, in order,
                // each with its index, every field in its place and status 0 (hand-written encoding)
                if matches!(f[1], 3 | 4 | 5) {
                    if let Some(cmds) = expect_cmd.as_ref() {
                        let want: Vec<(u8, u8, u32, Vec<u8>)> = cmds
                            .iter()
                            .map(|(kind, index, wide, value)| {
                                let idx = if *wide { *index as u32 } else { (*index as u8) as u32 };
                                let (var, mut bytes): (u8, Vec<u8>) = match kind {
                                    0 => {
                                        // control code (LATCH_ON 3 / LATCH_OFF 4), count, on time, off time
                                        let mut b = vec![if value % 2 == 0 { 0x03 } else { 0x04 }, (*value % 3) as u8 + 1];
                                        b.extend(value.to_le_bytes());
                                        b.extend((value / 2).to_le_bytes());
                                        (1, b)
                                    }
                                    1 => (1, (*value as i32).to_le_bytes().to_vec()),
                                    2 => (2, (*value as i16).to_le_bytes().to_vec()),
                                    3 => (3, (*value as f32 / 4.0).to_le_bytes().to_vec()),
                                    _ => (4, (*value as f64 / 8.0).to_le_bytes().to_vec()),
                                };
                                bytes.push(0);
                                (if *kind == 0 { 12 } else { 41 }, var, idx, bytes)
                            })
                            .collect();
                        let w = ra::walk(f[1], &f[2..], false);
                        let mut got: Vec<(u8, u8, u32, Vec<u8>)> = vec![];
                        let mut widths_ok = true;
                        for h in &w.headers {
                            for o in &h.objs {
                                got.push((h.group, h.var, o.index.unwrap_or(u32::MAX), o.bytes.clone()));
                            }
                        }
                        // the index width on the wire is the one asked for
                        let mut k = 0;
                        for h in &w.headers {
                            for _ in &h.objs {
                                if let Some(c) = cmds.get(k) {
                                    if (h.qual == ra::Q_PREFIX16) != c.2 {
                                        widths_ok = false;
                                    }
                                }
                                k += 1;
                            }
                        }
                        if got != want || w.error.is_some() || !widths_ok {
                            report(a, "A1", idx, &("command_request_objects".into(), format!("f{}", f[1]), format!("asked for {want:?} (widths ok: {widths_ok}), the request carries {got:?} (error {:?})", w.error)), f, &ctx);
                        } else {
                            out::count("A1_command_request_as_asked", 1);
                        }
                    }
                }
                if let Some((func, want, skip)) = expect_file.as_ref() {
                    if f[1] == *func {
                        let mut got = f[2..].to_vec();
                        if got.len() == want.len() {
                            for k in skip {
                                got[*k] = 0;
                            }
                        }
                        if got != *want {
                            report(a, "A1", idx, &("file_request_fields".into(), format!("f{func}"), format!("expected the object {} but the request carries {}", hex(want), hex(&f[2..]))), f, &ctx);
                        } else {
                            out::count("A1_file_request_as_asked", 1);
                        }
                        expect_file = None;
                    }
                }
                // OPEN_FILE: one g70v3 object (free format, qualifier 5B) whose fields are what was asked for
                if f[1] == 25 {
                    if let Some((path, bits, key, size, mode, block)) = expect_open.take() {
                        let o = &f[2..];
                        let name = path.as_bytes();
                        let mut want: Vec<u8> = vec![70, 3, 0x5B, 1];
                        want.extend(((26 + name.len()) as u16).to_le_bytes());
                        want.extend(26u16.to_le_bytes());
                        want.extend((name.len() as u16).to_le_bytes());
                        let time_at = want.len();
                        want.extend([0u8; 6]); // time of creation: not chosen by the caller, not compared
                        want.extend(bits.to_le_bytes());
                        want.extend(key.to_le_bytes());
                        want.extend(size.to_le_bytes());
                        want.extend(mode.to_le_bytes());
                        want.extend(block.to_le_bytes());
                        let id_at = want.len();
                        want.extend([0u8; 2]); // request id: the library's, not compared
                        want.extend(name);
                        let mut got = o.to_vec();
                        if got.len() == want.len() {
                            for k in (time_at..time_at + 6).chain(id_at..id_at + 2) {
                                got[k] = 0;
                            }
                        }
                        if got != want {
                            report(a, "A1", idx, &("open_file_request_fields".into(), "open".into(), format!("asked for path {path:?} permissions {bits:#05x} key {key} size {size} mode {mode} block {block}: expected object {} but the request carries {}", hex(&want), hex(o))), f, &ctx);
                        } else {
                            out::count("A1_open_file_request_as_asked", 1);
                        }
                    }
                }
                // READ requests: the header list is what was asked for
                if f[1] == ra::F_READ {
                    if let Some(ex) = expect.take() {
                        let w = ra::walk(ra::F_READ, &f[2..], false);
                        let got: Vec<(u8, u8, u8, u32, u32)> = w
                            .headers
                            .iter()
                            .map(|h| match h.qual {
                                ra::Q_RANGE8 | ra::Q_RANGE16 => {
                                    (h.group, h.var, h.qual, h.start, h.stop)
                                }
                                ra::Q_ALL => (h.group, h.var, h.qual, 0, 0),
                                _ => (h.group, h.var, h.qual, h.count, 0),
                            })
                            .collect();
                        if got != ex || w.error.is_some() {
                            report(a, "A1", idx, &("read_request_headers".into(), "read".into(), format!("asked for {ex:?}, the request carries {got:?} (error {:?})", w.error)), f, &ctx);
                        } else {
                            out::count("A1_read_request_as_asked", 1);
                        }
                    }
                }
                mutate_and_compare(a, "A1", idx, &mut r, f, &ctx);
                // answer
                let seq = f[0] & 15;
                let rsp = match f[1] {
                    ra::F_CONFIRM => continue,
                    ra::F_SELECT | ra::F_OPERATE | ra::F_DIRECT_OPERATE => {
                        ra::B::response(ra::FIR | ra::FIN | seq, false, 0, 0)
                            .raw(&f[2..])
                            .done()
                    }
                    ra::F_DELAY_MEASURE => ra::B::response(ra::FIR | ra::FIN | seq, false, 0, 0)
                        .count8(52, 2, 1, &[0, 0])
                        .done(),
                    ra::F_COLD_RESTART | ra::F_WARM_RESTART => {
                        ra::B::response(ra::FIR | ra::FIN | seq, false, 0, 0)
                            .count8(52, 2, 1, &[5, 0])
                            .done()
                    }
                    _ => ra::B::response(ra::FIR | ra::FIN | seq, false, 0, 0).done(),
                };
                sim.send_from(1024, &rsp);
                settle().await;
            }
        }
    }
}

/// every time an event object of a response carries (absolute, or relative to its common-time object) must be a time
/// that was written for that point: what is encoded is what the database holds
fn time_provenance(
    a: &ShardArgs,
    idx: u64,
    frags: &[Vec<u8>],
    written: &std::collections::BTreeMap<(usize, u32), std::collections::BTreeSet<u64>>,
    ctx: &Vec<String>,
) {
    for f in frags {
        if f.len() < 4 {
            continue;
        }
        let Ok((meas, _)) = ra::decode_response_measurements(&f[4..]) else {
            continue;
        };
        for m in meas.iter().filter(|m| m.is_event) {
            let Some(t) = vals::EVENT_GROUP.iter().position(|g| *g == m.group) else {
                continue;
            };
            let Some(time) = m.time else { continue };
            out::eval(1);
            let known = written.get(&(t, m.index)).map(|s| s.contains(&time)).unwrap_or(false);
            if !known {
                report(
                    a,
                    "A2",
                    idx,
                    &(
                        "event_time_never_written".into(),
                        format!("g{}v{}", m.group, m.var),
                        format!(
                            "event object g{}v{} index {} carries time {time}, which was never written for that point (written: {:?})",
                            m.group,
                            m.var,
                            m.index,
                            written.get(&(t, m.index)).map(|s| s.iter().rev().take(6).collect::<Vec<_>>())
                        ),
                    ),
                    f,
                    ctx,
                );
            } else {
                out::count("A2_event_times_as_written", 1);
                if m.rel_time.is_some() {
                    out::count("A2_relative_event_times_as_written", 1);
                }
            }
        }
    }
}

/// Part A2: everything the real outstation encodes
async fn outstation_responses(a: &ShardArgs, idx: u64) {
    let mut r = a.rng(&format!("c09/o/{idx}"));
    let mut oc = OutCfg::default();
    oc.sol_tx = *r.pick(&[249usize, 300, 2048]);
    oc.unsol_tx = *r.pick(&[249usize, 2048]);
    oc.unsolicited = r.chance(1, 3);
    let burst = r.chance(1, 6);
    oc.event_cfg = if burst { [320; 8] } else { [60; 8] };
    oc.class_zero_octets = true;
    oc.confirm_timeout_ms = 500;
    let mut layout: Vec<(usize, u16, u8, u8, u8)> = vec![];
    for t in 0..8 {
        let dense = r.bool() || t < 3;
        let mut next = *r.pick(&[0u16, 250, 65500]);
        // packed formats: runs whose length is and is not a multiple of 4 and 8
        let n = if t < 3 {
            *r.pick(&[1u64, 3, 4, 5, 8, 9, 16])
        } else {
            r.range(1, 6)
        };
        for _ in 0..n {
            layout.push((
                t,
                next,
                *r.pick(vals::svars(t)),
                *r.pick(vals::evars(t)),
                1 + r.below(3) as u8,
            ));
            next = next.saturating_add(if dense { 1 } else { r.range(1, 9) as u16 });
            if next == 65535 {
                break;
            }
        }
    }
    layout.sort();
    layout.dedup_by_key(|l| (l.0, l.1));
    let l2 = layout.clone();
    let mut sim = OutSim::start_with(oc.clone(), |db| {
        for (t, i, sv, ev, c) in &l2 {
            vals::add(
                db,
                *t,
                *i,
                *sv,
                *ev,
                Some(
                    [
                        crate::outstation::database::EventClass::Class1,
                        crate::outstation::database::EventClass::Class2,
                        crate::outstation::database::EventClass::Class3,
                    ][(*c - 1) as usize],
                ),
            );
        }
    })
    .await;
    let mut ctx: Vec<String> = vec![format!("tx={} layout={layout:?}", oc.sol_tx)];
    let mut seq = r.below(16) as u8;
    let mut written: std::collections::BTreeMap<(usize, u32), std::collections::BTreeSet<u64>> = Default::default();
    // event times mostly move along a line, forwards and backwards by steps around the reach of a 16-bit relative time
    let mut t_line: u64 = 1_600_000_000_000 + r.below(1_000_000);
    let mut next_time = move |r: &mut Rng| -> u64 {
        if r.chance(1, 6) {
            r.u64() & 0x0000_FFFF_FFFF_FFFF
        } else {
            let d: i64 = *r.pick(&[0i64, 1, 2, 999, 65_534, 65_535, 65_536, 70_000, -1, -2, -100, -65_535, -70_000]);
            t_line = (t_line as i64 + d).max(0) as u64;
            t_line
        }
    };
    // every point gets a value; most of them plainly ONLINE so that the packed variations are used
    for (t, i, _, _, _) in &layout {
        let mut s0 = vals::random_src(&mut r, *t, *i);
        if r.chance(3, 4) {
            s0.flags = 0x01;
        }
        s0.time = next_time(&mut r);
        written.entry((*t, *i as u32)).or_default().insert(s0.time);
        vals::update(&sim, &s0);
    }
    if burst {
        // more than 255 events of one type in one response: 16-bit counts and prefixes
        let (t, i, _, _, _) = *r.pick(&layout);
        for _ in 0..r.range(200, 300) {
            let mut s0 = vals::random_src(&mut r, t, i);
            s0.time = next_time(&mut r);
            written.entry((t, i as u32)).or_default().insert(s0.time);
            vals::update(&sim, &s0);
        }
    }
    let check = |a: &ShardArgs, r: &mut Rng, ctx: &Vec<String>, rx: &[Rx]| -> Vec<Vec<u8>> {
        let frags: Vec<Vec<u8>> = rx
            .iter()
            .filter_map(|x| x.fragment().map(|f| f.to_vec()))
            .collect();
        for f in &frags {
            out::eval(1);
            match compare(f, true, true) {
                Ok(o) => {
                    tally("A2", &o);
                    out::distinct(&format!("A2/f{}/len{}", f[1], f.len().min(2048) / 64));
                }
                Err(v) => report(a, "A2", idx, &v, f, ctx),
            }
            mutate_and_compare(a, "A2", idx, r, f, ctx);
        }
        frags
    };
    for _ in 0..r.range(2, 6) {
        // new values
        for _ in 0..r.range(1, 12) {
            let (t, i, _, _, _) = *r.pick(&layout);
            let mut s = vals::random_src(&mut r, t, i);
            s.time = next_time(&mut r);
            written.entry((t, i as u32)).or_default().insert(s.time);
            vals::update(&sim, &s);
        }
        settle().await;
        let rx = sim.collect();
        let unsol = check(a, &mut r, &ctx, &rx);
        time_provenance(a, idx, &unsol, &written, &ctx);
        for f in unsol {
            if f[1] == ra::F_UNSOL_RESPONSE && f[0] & ra::CON != 0 {
                sim.send(&ra::B::confirm(f[0] & 15, true).done());
                settle().await;
            }
        }
        // a request
        seq = (seq + 1) & 15;
        let rq = match r.below(8) {
            0 => ra::B::request(ra::F_READ, seq)
                .all(60, 2)
                .all(60, 3)
                .all(60, 4)
                .all(60, 1)
                .done(),
            1 => ra::B::request(ra::F_READ, seq).all(60, 1).done(),
            2 => {
                let t = r.usize_below(7);
                ra::B::request(ra::F_READ, seq)
                    .all(vals::STATIC_GROUP[t], *r.pick(vals::svars(t)))
                    .done()
            }
            3 => {
                let t = r.usize_below(7);
                ra::B::request(ra::F_READ, seq)
                    .all(vals::EVENT_GROUP[t], *r.pick(vals::evars(t)))
                    .done()
            }
            4 => {
                let t = r.usize_below(7);
                ra::B::request(ra::F_READ, seq)
                    .range16(vals::STATIC_GROUP[t], 0, 0, 65535, &[])
                    .done()
            }
            5 => ra::B::request(*r.pick(&[ra::F_SELECT, ra::F_DIRECT_OPERATE]), seq)
                .raw(&{
                    if r.chance(1, 3) {
                        // an echo that does not fit the solicited buffer: the truncated echo is still a well-formed fragment
                        let n = r.range(1, 3) as usize;
                        crate::verif::gen::control_objects_n(&mut r, n, 90)
                    } else {
                        let n = r.range(1, 4) as usize;
                        crate::verif::gen::control_objects(&mut r, n)
                    }
                })
                .done(),
            6 => ra::B::request(ra::F_DELAY_MEASURE, seq).done(),
            _ => ra::B::request(ra::F_READ, seq)
                .count8(60, 2, r.below(4) as u8, &[])
                .all(60, 3)
                .done(),
        };
        ctx.push(format!("request {}", hex(&rq[..rq.len().min(40)])));
        sim.send(&rq);
        settle().await;
        // follow the series
        for _ in 0..40 {
            let rx = sim.collect();
            let frags = check(a, &mut r, &ctx, &rx);
            time_provenance(a, idx, &frags, &written, &ctx);
            if (rq[1] == ra::F_SELECT || rq[1] == ra::F_DIRECT_OPERATE) && rq.len() + 2 > oc.sol_tx {
                for f in &frags {
                    if f[1] == ra::F_RESPONSE && f.len() < rq.len() + 2 && f.len() > 4 {
                        out::count("A2_truncated_control_echo_checked", 1);
                    }
                }
            }
            let mut progressed = false;
            for f in frags {
                if f[0] & ra::CON != 0 {
                    sim.send(&ra::B::confirm(f[0] & 15, f[1] == ra::F_UNSOL_RESPONSE).done());
                    settle().await;
                    progressed = true;
                }
            }
            if !progressed {
                break;
            }
        }
    }
}

/// a device attribute value and its encoding [type code, length, value] written by hand from the standard
#[derive(Clone, Debug, PartialEq)]
enum AV {
    Str(String),
    UInt(u32),
    Int(i32),
    F32(f32),
    F64(f64),
    Octets(Vec<u8>),
    Bits(Vec<u8>),
    Time(u64),
}

impl AV {
    fn random(r: &mut Rng) -> AV {
        match r.below(8) {
            0 => AV::Str(
                (0..*r.pick(&[0usize, 1, 7, 60, 255]))
                    .map(|_| (b'a' + r.below(26) as u8) as char)
                    .collect(),
            ),
            1 => AV::UInt(*r.pick(&[0u32, 1, 255, 256, 65535, 65536, u32::MAX, 0x0100_0000])),
            2 => AV::Int(*r.pick(&[
                0i32,
                -1,
                127,
                128,
                -128,
                -129,
                32767,
                32768,
                -32768,
                -32769,
                i32::MAX,
                i32::MIN,
            ])),
            3 => AV::F32(*r.pick(&[0.0f32, -1.5, f32::MAX, f32::MIN_POSITIVE, 3.25])),
            4 => AV::F64(*r.pick(&[0.0f64, -1.5, f64::MAX, 1e-300, 2.5])),
            5 => AV::Octets({
                let n = *r.pick(&[0usize, 1, 16, 100, 250, 255]);
                r.bytes(n)
            }),
            6 => AV::Bits({
                let n = *r.pick(&[0usize, 1, 9]);
                r.bytes(n)
            }),
            _ => AV::Time(*r.pick(&[0u64, 1, 0x0000_FFFF_FFFF_FFFF, 1_600_000_000_000])),
        }
    }
    fn owned(&self) -> crate::app::attr::OwnedAttrValue {
        use crate::app::attr::{FloatType, OwnedAttrValue as O};
        match self {
            AV::Str(s) => O::VisibleString(s.clone()),
            AV::UInt(x) => O::UnsignedInt(*x),
            AV::Int(x) => O::SignedInt(*x),
            AV::F32(x) => O::FloatingPoint(FloatType::F32(*x)),
            AV::F64(x) => O::FloatingPoint(FloatType::F64(*x)),
            AV::Octets(b) => O::OctetString(b.clone()),
            AV::Bits(b) => O::BitString(b.clone()),
            AV::Time(t) => O::Dnp3Time(crate::app::Timestamp::new(*t)),
        }
    }
    fn code(&self) -> u8 {
        match self {
            AV::Str(_) => 1,
            AV::UInt(_) => 2,
            AV::Int(_) => 3,
            AV::F32(_) | AV::F64(_) => 4,
            AV::Octets(_) => 5,
            AV::Bits(_) => 6,
            AV::Time(_) => 7,
        }
    }
    /// does an encoded attribute object [code, len, bytes] carry this value? (integers may use 1, 2 or 4 octets)
    fn carried_by(&self, obj: &[u8]) -> bool {
        if obj.len() < 2 || obj[0] != self.code() || obj.len() != 2 + obj[1] as usize {
            return false;
        }
        let v = &obj[2..];
        match self {
            AV::Str(s) => v == s.as_bytes(),
            AV::Octets(b) | AV::Bits(b) => v == b.as_slice(),
            AV::UInt(x) => {
                matches!(v.len(), 1 | 2 | 4)
                    && v.iter().rev().fold(0u64, |a, b| a << 8 | *b as u64) == *x as u64
            }
            AV::Int(x) => match v.len() {
                1 => v[0] as i8 as i32 == *x,
                2 => i16::from_le_bytes([v[0], v[1]]) as i32 == *x,
                4 => i32::from_le_bytes([v[0], v[1], v[2], v[3]]) == *x,
                _ => false,
            },
            AV::F32(x) => {
                v.len() == 4
                    && f32::from_le_bytes([v[0], v[1], v[2], v[3]]).to_bits() == x.to_bits()
            }
            AV::F64(x) => {
                v.len() == 8
                    && f64::from_le_bytes([v[0], v[1], v[2], v[3], v[4], v[5], v[6], v[7]])
                        .to_bits()
                        == x.to_bits()
            }
            AV::Time(t) => v.len() == 6 && ra::rd48(v) == *t,
        }
    }
    /// the text the library's Debug rendering of the decoded value must contain
    fn debug_needle(&self) -> String {
        match self {
            AV::Str(s) => format!("{s:?}"),
            AV::UInt(x) => format!("({x})"),
            AV::Int(x) => format!("({x})"),
            AV::F32(x) => format!("{x:?}"),
            AV::F64(x) => format!("{x:?}"),
            AV::Octets(b) | AV::Bits(b) => format!("{b:?}"),
            AV::Time(t) => format!("{t}"),
        }
    }
    fn encode(&self) -> Vec<u8> {
        let v: Vec<u8> = match self {
            AV::Str(s) => s.as_bytes().to_vec(),
            AV::Octets(b) | AV::Bits(b) => b.clone(),
            AV::UInt(x) => x.to_le_bytes().to_vec(),
            AV::Int(x) => x.to_le_bytes().to_vec(),
            AV::F32(x) => x.to_le_bytes().to_vec(),
            AV::F64(x) => x.to_le_bytes().to_vec(),
            AV::Time(t) => ra::time48(*t),
        };
        let mut o = vec![self.code(), v.len() as u8];
        o.extend(v);
        o
    }
}

/// Part A3: device attributes - defined in the outstation, read (one, all of a set) and written by a scripted master
async fn attributes(a: &ShardArgs, idx: u64) {
    use crate::app::attr::{AttrProp, AttrSet, OwnedAttribute};
    let mut r = a.rng(&format!("c09/attr/{idx}"));
    let mut oc = OutCfg::default();
    oc.sol_tx = *r.pick(&[249usize, 2048]);
    // (set, variation) -> (value, writable)
    let mut defs: std::collections::BTreeMap<(u8, u8), (AV, bool)> = Default::default();
    for _ in 0..r.range(1, 10) {
        let set = *r.pick(&[1u8, 2, 200, 255]);
        let var = *r.pick(&[1u8, 2, 100, 200, 253]);
        defs.entry((set, var))
            .or_insert((AV::random(&mut r), r.bool()));
    }
    // members of the default set: (variation, kind s|u|b|f|t|o, name of the attribute in IEEE 1815 table order)
    const DEFAULT_SET: [(u8, char, &str); 57] = [
        (196, 's', "ConfigId"),
        (197, 's', "ConfigVersion"),
        (198, 't', "ConfigBuildDate"),
        (199, 't', "ConfigLastChangeDate"),
        (200, 'o', "ConfigDigest"),
        (201, 's', "ConfigDigestAlgorithm"),
        (202, 's', "MasterResourceId"),
        (203, 'f', "DeviceLocationAltitude"),
        (204, 'f', "DeviceLocationLongitude"),
        (205, 'f', "DeviceLocationLatitude"),
        (206, 's', "UserAssignedSecondaryOperatorName"),
        (207, 's', "UserAssignedPrimaryOperatorName"),
        (208, 's', "UserAssignedSystemName"),
        (209, 'u', "SecureAuthVersion"),
        (210, 'u', "NumSecurityStatsPerAssoc"),
        (211, 's', "UserSpecificAttributes"),
        (212, 'u', "NumMasterDefinedDataSetProto"),
        (213, 'u', "NumOutstationDefinedDataSetProto"),
        (214, 'u', "NumMasterDefinedDataSets"),
        (215, 'u', "NumOutstationDefinedDataSets"),
        (216, 'u', "MaxBinaryOutputPerRequest"),
        (217, 'u', "LocalTimingAccuracy"),
        (218, 'u', "DurationOfTimeAccuracy"),
        (219, 'b', "SupportsAnalogOutputEvents"),
        (220, 'u', "MaxAnalogOutputIndex"),
        (221, 'u', "NumAnalogOutputs"),
        (222, 'b', "SupportsBinaryOutputEvents"),
        (223, 'u', "MaxBinaryOutputIndex"),
        (224, 'u', "NumBinaryOutputs"),
        (225, 'b', "SupportsFrozenCounterEvents"),
        (226, 'b', "SupportsFrozenCounters"),
        (227, 'b', "SupportsCounterEvents"),
        (228, 'u', "MaxCounterIndex"),
        (229, 'u', "NumCounter"),
        (230, 'b', "SupportsFrozenAnalogInputs"),
        (231, 'b', "SupportsAnalogInputEvents"),
        (232, 'u', "MaxAnalogInputIndex"),
        (233, 'u', "NumAnalogInput"),
        (234, 'b', "SupportsDoubleBitBinaryInputEvents"),
        (235, 'u', "MaxDoubleBitBinaryInputIndex"),
        (236, 'u', "NumDoubleBitBinaryInput"),
        (237, 'b', "SupportsBinaryInputEvents"),
        (238, 'u', "MaxBinaryInputIndex"),
        (239, 'u', "NumBinaryInput"),
        (240, 'u', "MaxTxFragmentSize"),
        (241, 'u', "MaxRxFragmentSize"),
        (242, 's', "DeviceManufacturerSoftwareVersion"),
        (243, 's', "DeviceManufacturerHardwareVersion"),
        (244, 's', "UserAssignedOwnerName"),
        (245, 's', "UserAssignedLocation"),
        (246, 's', "UserAssignedId"),
        (247, 's', "UserAssignedDeviceName"),
        (248, 's', "DeviceSerialNumber"),
        (249, 's', "DeviceSubsetAndConformance"),
        (250, 's', "ProductNameAndModel"),
        (252, 's', "DeviceManufacturersName"),
        (1, 's', ""),
    ];
    let mut names: std::collections::BTreeMap<u8, &str> = Default::default();
    for _ in 0..r.range(2, 9) {
        let (var, kind, name) = *r.pick(&DEFAULT_SET[..56]);
        let v = match kind {
            's' => AV::Str(
                (0..r.range(0, 12))
                    .map(|_| (b'a' + r.below(26) as u8) as char)
                    .collect(),
            ),
            'u' => AV::UInt(*r.pick(&[0u32, 1, 255, 256, 65535, 65536, u32::MAX])),
            'b' => AV::Int(r.below(2) as i32),
            'f' => {
                if r.bool() {
                    AV::F32(*r.pick(&[0.0f32, -12.5, 8848.0]))
                } else {
                    AV::F64(*r.pick(&[0.0f64, -122.25, 1e-9]))
                }
            }
            't' => AV::Time(*r.pick(&[0u64, 1_600_000_000_000, 0x0000_FFFF_FFFF_FFFF])),
            _ => AV::Octets({
                let n = *r.pick(&[1usize, 16, 32]);
                r.bytes(n)
            }),
        };
        if !defs.contains_key(&(0, var)) {
            defs.insert((0, var), (v, false));
            names.insert(var, name);
        }
    }
    let d2 = defs.clone();
    let mut def_errors: Vec<String> = vec![];
    let mut sim = OutSim::start_with(oc.clone(), |db| {
        for ((set, var), (v, w)) in &d2 {
            let prop = if *w {
                AttrProp::writable()
            } else {
                AttrProp::default()
            };
            if let Err(e) = db.define_attr(
                prop,
                OwnedAttribute::new(AttrSet::new(*set), *var, v.owned()),
            ) {
                def_errors.push(format!("({set},{var}) {v:?}: {e:?}"));
            }
        }
    })
    .await;
    let mut ctx: Vec<String> = vec![format!("defined {defs:?}")];
    if !def_errors.is_empty() {
        report(
            a,
            "A3",
            idx,
            &(
                "attribute_definition_refused".into(),
                "define".into(),
                format!("define_attr refused: {def_errors:?}"),
            ),
            &[],
            &ctx,
        );
        return;
    }
    let mut seq = r.below(16) as u8;
    // send a request and follow the response series by confirming, at most 12 fragments
    async fn exchange(sim: &mut OutSim, rq: &[u8]) -> Vec<Vec<u8>> {
        let mut all: Vec<Vec<u8>> = vec![];
        let mut rx = sim.request(rq).await;
        for _ in 0..12 {
            let frags: Vec<Vec<u8>> = rx
                .iter()
                .filter_map(|x| x.fragment().map(|f| f.to_vec()))
                .collect();
            if frags.is_empty() {
                break;
            }
            let last = frags.last().unwrap().clone();
            all.extend(frags);
            if last[0] & ra::CON == 0 || last[0] & ra::FIN != 0 {
                if last[0] & ra::CON != 0 {
                    let _ = sim
                        .request(&ra::B::confirm(last[0] & 15, false).done())
                        .await;
                }
                break;
            }
            rx = sim
                .request(&ra::B::confirm(last[0] & 15, false).done())
                .await;
        }
        all
    }
    // decode the attribute objects of a response: (set, variation, object bytes)
    let decode = |f: &[u8]| -> Vec<(u8, u8, Vec<u8>)> {
        let w = ra::walk(ra::F_RESPONSE, &f[4..], true);
        w.headers
            .iter()
            .filter(|h| h.group == 0)
            .flat_map(|h| {
                h.objs
                    .iter()
                    .map(move |o| (h.start as u8, h.var, o.bytes.clone()))
            })
            .collect()
    };
    // an attribute object (5 header octets + type + length + value) that does not fit an empty fragment cannot be reported at all
    let tx = oc.sol_tx;
    let fits = move |v: &AV| 5 + v.encode().len() <= tx - 4;
    for _ in 0..r.range(3, 9) {
        seq = (seq + 1) & 15;
        let keys: Vec<(u8, u8)> = defs.keys().cloned().collect();
        let (set, var) = *r.pick(&keys);
        match r.below(5) {
            4 => {
                // list of the attribute variations of a set (variation 255): pairs (variation, properties), bit 0 = writable
                let rq = ra::B::request(ra::F_READ, seq)
                    .range8(0, 255, set, set, &[])
                    .done();
                ctx.push(format!("READ g0v255 set {set}"));
                let frags = exchange(&mut sim, &rq).await;
                out::eval(1);
                for f in &frags {
                    if let Err(v) = compare(f, false, true) {
                        report(a, "A3", idx, &v, f, &ctx);
                    }
                }
                let got: Vec<(u8, u8, Vec<u8>)> = frags.iter().flat_map(|f| decode(f)).collect();
                let mut want: Vec<u8> = vec![];
                for (k, v) in defs.iter().filter(|(k, _)| k.0 == set) {
                    want.push(k.1);
                    want.push(v.1 as u8);
                }
                let ok = got.len() == 1
                    && got[0].0 == set
                    && got[0].1 == 255
                    && got[0].2.len() >= 2
                    && got[0].2[0] == 254
                    && got[0].2[1] as usize == want.len()
                    && got[0].2[2..] == want[..];
                if !ok {
                    report(a, "A3", idx, &("attribute_variation_list".into(), "v255".into(), format!("set {set} defines (variation, writable) {want:?}; the list read returned {got:?}")), frags.first().map(|f| f.as_slice()).unwrap_or(&[]), &ctx);
                } else {
                    out::count("A3_variation_list_ok", 1);
                }
            }
            0 | 1 => {
                // read one attribute
                let rq = ra::B::request(ra::F_READ, seq)
                    .range8(0, var, set, set, &[])
                    .done();
                ctx.push(format!("READ g0v{var} set {set}"));
                let frags = exchange(&mut sim, &rq).await;
                out::eval(1);
                let Some(f) = frags.first() else {
                    report(
                        a,
                        "A3",
                        idx,
                        &(
                            "attribute_no_reply".into(),
                            "read".into(),
                            "no response to an attribute read".into(),
                        ),
                        &rq,
                        &ctx,
                    );
                    continue;
                };
                if let Err(v) = compare(f, false, true) {
                    report(a, "A3", idx, &v, f, &ctx);
                }
                let got: Vec<(u8, u8, Vec<u8>)> = frags.iter().flat_map(|f| decode(f)).collect();
                if frags.len() >= 12 {
                    report(a, "A3", idx, &("attribute_series_endless".into(), "one".into(), format!("the response series to the read of attribute ({set},{var}) did not end within 12 fragments")), f, &ctx);
                }
                let want = &defs[&(set, var)].0;
                if !fits(want) {
                    if !got.is_empty() {
                        report(a, "A3", idx, &("attribute_encoding".into(), "oversize".into(), format!("attribute ({set},{var}) cannot fit a fragment of {tx} octets but {got:?} was reported")), f, &ctx);
                    } else {
                        out::count("A3_oversize_attribute_skipped_ok", 1);
                    }
                    continue;
                }
                if got.len() != 1
                    || got[0].0 != set
                    || got[0].1 != var
                    || !want.carried_by(&got[0].2)
                {
                    report(
                        a,
                        "A3",
                        idx,
                        &(
                            "attribute_encoding".into(),
                            format!("code{}", want.code()),
                            format!("attribute ({set},{var}) = {want:?} is reported as {got:?}"),
                        ),
                        f,
                        &ctx,
                    );
                } else {
                    out::count("A3_attribute_read_ok", 1);
                    out::count(&format!("A3_read_ok_code{}", want.code()), 1);
                }
                // and what the master's handler is given
                let mut rec = Recorder::new();
                if let Ok(p) = ParsedFragment::parse(
                    ParseOptions {
                        parse_zero_length_strings: false,
                    },
                    f,
                ) {
                    if let Ok(objs) = p.objects {
                        crate::master::extract::extract_measurements_inner(objs, &mut rec);
                    }
                }
                let attrs: Vec<String> = rec
                    .take()
                    .into_iter()
                    .filter_map(|i| if let Item::Attr(s) = i { Some(s) } else { None })
                    .collect();
                // members of the default set reach the handler under their own name (booleans as true / false)
                let name_ok = set != 0
                    || names
                        .get(&var)
                        .map(|n| {
                            attrs
                                .first()
                                .map(|a| {
                                    a.contains(&format!("{n}, "))
                                        || a.contains(&format!("{n})"))
                                        || a.contains(&format!("({n},"))
                                })
                                .unwrap_or(false)
                        })
                        .unwrap_or(true);
                let is_bool = set == 0 && DEFAULT_SET.iter().any(|d| d.0 == var && d.1 == 'b');
                let num_ok = |x: String| {
                    attrs
                        .first()
                        .map(|a| a.contains(&format!("({x})")) || a.contains(&format!(", {x})")))
                        .unwrap_or(false)
                };
                let value_ok = if let AV::UInt(x) = want {
                    num_ok(x.to_string())
                } else if is_bool {
                    attrs
                        .first()
                        .map(|a| a.contains(if *want == AV::Int(1) { "true" } else { "false" }))
                        .unwrap_or(false)
                } else {
                    attrs
                        .first()
                        .map(|a| a.contains(&want.debug_needle()))
                        .unwrap_or(false)
                };
                if attrs.len() == 1 && set == 0 && !name_ok {
                    report(
                        a,
                        "A3",
                        idx,
                        &(
                            "attribute_name".into(),
                            format!("v{var}"),
                            format!(
                                "default-set attribute {var} ({}) reaches the handler as {attrs:?}",
                                names.get(&var).copied().unwrap_or("?")
                            ),
                        ),
                        f,
                        &ctx,
                    );
                } else if set == 0 && names.contains_key(&var) {
                    out::count("A3_default_set_attribute_named_ok", 1);
                }
                if attrs.len() != 1 || !value_ok {
                    report(a, "A3", idx, &("attribute_delivery".into(), format!("code{}", want.code()), format!("attribute ({set},{var}) = {want:?} reaches the handler as {attrs:?}")), f, &ctx);
                } else {
                    out::count("A3_attribute_delivered_ok", 1);
                }
            }
            2 => {
                // all attributes of a set (variation 254)
                let rq = ra::B::request(ra::F_READ, seq)
                    .range8(0, 254, set, set, &[])
                    .done();
                ctx.push(format!("READ g0v254 set {set}"));
                let frags = exchange(&mut sim, &rq).await;
                if frags.len() >= 12 {
                    report(a, "A3", idx, &("attribute_series_endless".into(), "v254".into(), format!("the response series to a read of all attributes of set {set} did not end within 12 fragments")), frags.last().map(|f| f.as_slice()).unwrap_or(&[]), &ctx);
                }
                out::eval(1);
                let mut got: Vec<(u8, u8, Vec<u8>)> = vec![];
                for f in &frags {
                    if let Err(v) = compare(f, false, true) {
                        report(a, "A3", idx, &v, f, &ctx);
                    }
                    got.extend(decode(f));
                }
                let want: Vec<(u8, &AV)> = defs
                    .iter()
                    .filter(|(k, v)| k.0 == set && fits(&v.0))
                    .map(|(k, v)| (k.1, &v.0))
                    .collect();
                let complete = frags.last().map(|f| f[0] & ra::FIN != 0).unwrap_or(false);
                let ok = got
                    .iter()
                    .all(|g| g.0 == set && want.iter().any(|w| w.0 == g.1 && w.1.carried_by(&g.2)))
                    && (!complete || got.len() == want.len());
                if !ok {
                    report(a, "A3", idx, &("attribute_set_read".into(), "v254".into(), format!("set {set} holds {want:?}; the read of all attributes returned {got:?}")), frags.first().map(|f| f.as_slice()).unwrap_or(&[]), &ctx);
                } else {
                    out::count("A3_attribute_set_read_ok", 1);
                }
            }
            _ => {
                // write
                let (old, writable) = defs[&(set, var)].clone();
                let same_type = r.chance(2, 3);
                let mut newv = AV::random(&mut r);
                for _ in 0..20 {
                    if (newv.code() == old.code()) == same_type {
                        break;
                    }
                    newv = AV::random(&mut r);
                }
                let app_ok = r.chance(3, 4);
                sim.mock.script(|s| s.attr_ok = app_ok);
                let _ = sim.mock.take();
                let rq = ra::B::request(ra::F_WRITE, seq)
                    .range8(0, var, set, set, &newv.encode())
                    .done();
                ctx.push(format!("WRITE g0v{var} set {set} = {newv:?} (writable={writable}, application accepts={app_ok})"));
                let rx = sim.request(&rq).await;
                let frags: Vec<Vec<u8>> = rx
                    .iter()
                    .filter_map(|x| x.fragment().map(|f| f.to_vec()))
                    .collect();
                out::eval(1);
                let Some(f) = frags.first() else {
                    report(
                        a,
                        "A3",
                        idx,
                        &(
                            "attribute_no_reply".into(),
                            "write".into(),
                            "no response to an attribute write".into(),
                        ),
                        &rq,
                        &ctx,
                    );
                    continue;
                };
                let accepted = f.len() >= 4 && f[3] & ra::IIN2_ERRORS == 0;
                let asked: usize = sim
                    .mock
                    .take()
                    .iter()
                    .filter(|(_, e)| matches!(e, Ev::WriteDeviceAttr(_)))
                    .count();
                let must_accept = writable && newv.code() == old.code() && app_ok;
                if accepted != must_accept {
                    report(a, "A3", idx, &("attribute_write_verdict".into(), format!("accepted{}", accepted as u8), format!("write of {newv:?} over {old:?} (writable={writable}, application accepts={app_ok}) answered with IIN2 {:02x}", f.get(3).copied().unwrap_or(0))), f, &ctx);
                } else {
                    out::count(
                        if accepted {
                            "A3_attribute_write_accepted_ok"
                        } else {
                            "A3_attribute_write_rejected_ok"
                        },
                        1,
                    );
                }
                if (!writable || newv.code() != old.code()) && asked > 0 {
                    report(a, "A3", idx, &("attribute_write_reached_application".into(), "write".into(), format!("the application was asked to persist a write that cannot be made (writable={writable}, {old:?} <- {newv:?})")), f, &ctx);
                }
                if accepted {
                    defs.insert((set, var), (newv, writable));
                }
                // the value now read is the new one exactly when the write was accepted
                seq = (seq + 1) & 15;
                let rx = sim
                    .request(
                        &ra::B::request(ra::F_READ, seq)
                            .range8(0, var, set, set, &[])
                            .done(),
                    )
                    .await;
                if let Some(f2) = rx.iter().filter_map(|x| x.fragment()).next() {
                    let got = decode(f2);
                    let want = &defs[&(set, var)].0;
                    if !fits(want) {
                        continue;
                    }
                    if got.len() != 1 || !want.carried_by(&got[0].2) {
                        report(a, "A3", idx, &("attribute_after_write".into(), format!("accepted{}", accepted as u8), format!("after the write (accepted={accepted}) attribute ({set},{var}) should read {want:?}, response carries {got:?}")), f2, &ctx);
                    } else {
                        out::count("A3_attribute_after_write_ok", 1);
                    }
                }
            }
        }
    }
    out::distinct(&format!("A3/defs{}", defs.len()));
}

/// Part A4: analog dead-bands written by the real master, applied by the real outstation, read back by the real master
async fn dead_bands(a: &ShardArgs, idx: u64) {
    use crate::outstation::database::*;
    use crate::verif::sim::pair::Pair;
    let mut r = a.rng(&format!("c09/db/{idx}"));
    let points: Vec<u16> = vec![0, 5, 255, 256, 65535];
    let pts = points.clone();
    let mut oc = OutCfg::default();
    oc.sol_tx = *r.pick(&[249usize, 2048]);
    let o = OutSim::start_with(oc, |db| {
        for i in &pts {
            db.add(
                *i,
                Some(EventClass::Class1),
                AnalogInputConfig::new(
                    StaticAnalogInputVariation::Group30Var1,
                    EventAnalogInputVariation::Group32Var1,
                    0.0,
                ),
            );
        }
    })
    .await;
    let mut ac = AssocCfg::quiet(1024);
    ac.response_timeout_ms = 2000;
    let m = MasterSim::start(MasterCfg::default(), &[ac]).await;
    let mut pair = Pair::new(m, o, 0, 0);
    pair.run_until(50, |_| false, |_, _| {}).await;
    let mut ctx: Vec<String> = vec![];
    // model of the dead-bands
    let mut model: std::collections::BTreeMap<u16, f64> =
        points.iter().map(|i| (*i, 0.0)).collect();
    for _ in 0..r.range(2, 6) {
        let var = 1 + r.below(3) as u8;
        let wide = r.bool();
        let n = r.range(1, 4);
        let mut items: Vec<(u16, f64)> = vec![];
        for _ in 0..n {
            let idx_pool: Vec<u16> = if wide {
                vec![0, 5, 255, 256, 65535, 7]
            } else {
                vec![0, 5, 255, 7]
            };
            let i = *r.pick(&idx_pool);
            let v: f64 = match var {
                1 => *r.pick(&[0.0, 1.0, 65535.0, 1234.0]),
                2 => *r.pick(&[0.0, 65536.0, 4294967295.0, 99999.0]),
                _ => *r.pick(&[0.0, 0.5, 16777216.0, 3.25, 1e30]),
            };
            items.push((i, v));
        }
        let all_exist = items.iter().all(|(i, _)| model.contains_key(i));
        let _ = pair.o.mock.take();
        let id = pair
            .m
            .submit(0, UserReq::WriteDeadBandsV(var, wide, items.clone()));
        settle().await;
        pair.pump();
        pair.run_until(
            10_000,
            |pr| pr.m.result_of(id).is_some() && pr.in_flight.is_empty(),
            |_, _| {},
        )
        .await;
        let res = pair.m.result_of(id).map(|x| x.3).unwrap_or_default();
        let calls: Vec<(u16, f64)> = pair
            .o
            .mock
            .take()
            .iter()
            .filter_map(|(_, e)| {
                if let Ev::WriteDeadBand(i, v) = e {
                    Some((*i, *v))
                } else {
                    None
                }
            })
            .collect();
        ctx.push(format!(
            "WRITE g34v{var} wide={wide} {items:?} -> {res}; application calls {calls:?}"
        ));
        out::eval(1);
        // every existing point named by the request gets its value, in order; the value is the one written (f32 for variation 3)
        let want: Vec<(u16, f64)> = items
            .iter()
            .filter(|(i, _)| model.contains_key(i))
            .map(|(i, v)| (*i, if var == 3 { *v as f32 as f64 } else { *v }))
            .collect();
        if calls != want {
            report(a, "A4", idx, &("dead_band_write".into(), format!("g34v{var}"), format!("dead-bands {items:?} (points {points:?}) reached the application as {calls:?}, expected {want:?}")), &[], &ctx);
        } else {
            out::count("A4_dead_band_write_ok", 1);
        }
        if all_exist != res.starts_with("Ok") {
            report(
                a,
                "A4",
                idx,
                &(
                    "dead_band_write_result".into(),
                    format!("exist{}", all_exist as u8),
                    format!(
                        "write_dead_bands returned {res} although all points exist = {all_exist}"
                    ),
                ),
                &[],
                &ctx,
            );
        }
        for (i, v) in want {
            model.insert(i, v);
        }
        // read back with a variation that can carry every current value
        let maxv = model.values().cloned().fold(0.0, f64::max);
        let frac = model
            .values()
            .any(|v| v.fract() != 0.0 || *v > 4294967295.0);
        let rv = if frac {
            3
        } else if maxv > 65535.0 {
            *r.pick(&[2u8, 2, 3])
        } else {
            1 + r.below(3) as u8
        };
        if rv == 3 && model.values().any(|v| (*v as f32) as f64 != *v) {
            continue;
        }
        let _ = pair.m.assocs[0].2.take();
        let id = pair
            .m
            .submit(0, UserReq::ReadHeaders(vec![(2, 34, rv, 0, 65535)]));
        settle().await;
        pair.pump();
        pair.run_until(
            20_000,
            |pr| pr.m.result_of(id).is_some() && pr.in_flight.is_empty(),
            |_, _| {},
        )
        .await;
        let got: Vec<(u16, f64)> = pair.m.assocs[0]
            .2
            .take()
            .into_iter()
            .filter_map(|i| {
                if let Item::M(rec) = i {
                    if rec.ptype == ra::PType::AnalogDeadBand {
                        if let RVal::F64(v) = rec.val {
                            return Some((rec.index, v));
                        }
                    }
                    None
                } else {
                    None
                }
            })
            .collect();
        let want: Vec<(u16, f64)> = model.iter().map(|(i, v)| (*i, *v)).collect();
        ctx.push(format!("READ g34v{rv} -> {got:?}"));
        out::eval(1);
        if got != want {
            report(
                a,
                "A4",
                idx,
                &(
                    "dead_band_read".into(),
                    format!("g34v{rv}"),
                    format!("dead-bands are {want:?}; READ g34v{rv} delivered {got:?}"),
                ),
                &[],
                &ctx,
            );
        } else {
            out::count("A4_dead_band_read_ok", 1);
            out::count(&format!("A4_read_ok_g34v{rv}"), 1);
        }
    }
    out::distinct("A4/dead-bands");
}

pub fn run(a: &ShardArgs) -> Result<(), String> {
    let only: Option<u64> = a
        .replay
        .as_ref()
        .and_then(|p| super::common::replay_scenario(p));
    if only.is_none() {
        strictness(a);
    }
    if a.extra.iter().any(|x| x == "--direct-only") {
        // interpreter runs: the parser / iterator / extraction code only (no sessions)
        return Ok(());
    }
    let n = a.n(5250);
    for idx in 0..n {
        if idx % a.nshards != a.shard {
            continue;
        }
        if let Some(o) = only {
            if o != idx {
                continue;
            }
        }
        out::progress(&format!("scenario {idx}"));
        match idx % 7 {
            0 | 3 => run_scenario(master_requests(a, idx)),
            1 | 4 => run_scenario(outstation_responses(a, idx)),
            2 | 5 => run_scenario(attributes(a, idx)),
            _ => run_scenario(dead_bands(a, idx)),
        }
        for p in crate::verif::util::take_panics() {
            out::violation(
                P,
                "C09.panic",
                &crate::verif::util::norm_location(&p.location),
                J::obj(vec![(
                    "why",
                    J::s(format!("panic {} at {}", p.message, p.location)),
                )]),
                J::obj(vec![
                    ("check", J::s("c09")),
                    ("seed", J::U(a.seed)),
                    ("shard", J::U(a.shard)),
                    ("nshards", J::U(a.nshards)),
                    ("scenario", J::U(idx)),
                ]),
            );
        }
    }
    Ok(())
}
