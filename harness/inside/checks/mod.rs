//! one module per property; `dispatch` selects by name
use super::ShardArgs;

pub mod common;

pub mod c06;
pub mod c08;

pub fn dispatch(a: &ShardArgs) -> Result<(), String> {
    super::refcodec::link::self_test()?;
    match a.check.as_str() {
        "c06" => c06::run(a),
        "c08" => c08::run(a),
        other => Err(format!("unknown check {other}")),
    }
}
