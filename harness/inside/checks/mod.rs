//! one module per property; `dispatch` selects by name
use super::ShardArgs;

pub mod common;

pub mod c01;
pub mod c01m;
pub mod c02;
pub mod c04;
pub mod c05;
pub mod c06;
pub mod c07;
pub mod c08;
pub mod c09;
pub mod c10;
pub mod c11;
pub mod c12;
pub mod c14;
pub mod c15;
pub mod c16;
pub mod c17;
pub mod c18;
pub mod c19;
pub mod evt;
pub mod smoke;

pub fn dispatch(a: &ShardArgs) -> Result<(), String> {
    super::refcodec::link::self_test()?;
    super::refcodec::app::self_test()?;
    let r = dispatch_inner(a);
    // H6: what the event-buffer audit saw during this shard; failures not already attributed to a
    // scenario (checks other than C03/C13) are recorded against the two properties the counters serve
    let (audits, records, states) = super::probe::audit_stats();
    if audits > 0 {
        super::out::count("event_buffer_audits", audits);
        super::out::count("event_buffer_audit_records_walked", records);
        super::out::count("event_buffer_audit_distinct_states", states);
        for (site, n) in super::probe::audit_sites() {
            super::out::count(&format!("event_buffer_audits_at_{site}"), n);
        }
    }
    let own = a.check.to_uppercase();
    for f in super::probe::take_audit_failures() {
        // the running check's own property first: structural damage of the buffer under its workload is its finding too
        let mut props = vec![own.as_str()];
        for p in ["C03", "C13"] {
            if !props.contains(&p) {
                props.push(p);
            }
        }
        for p in props {
            super::out::violation(
                p,
                &format!("{p}.audit.{}", f.rule),
                f.site,
                super::out::J::s(format!(
                    "event buffer audit at {}: {}: {}",
                    f.site, f.rule, f.detail
                )),
                super::out::J::Null,
            );
        }
    }
    r
}

fn dispatch_inner(a: &ShardArgs) -> Result<(), String> {
    match a.check.as_str() {
        "c01" => c01::run(a),
        "c02" => c02::run(a),
        "c03" => evt::run(a, "c03", "c03", 8000),
        "c13" => evt::run(a, "c13", "c13", 8000),
        "c04" => c04::run(a),
        "c05" => c05::run(a),
        "c06" => c06::run(a),
        "c07" => c07::run(a),
        "c08" => c08::run(a),
        "c09" => c09::run(a),
        "c10" => c10::run(a),
        "c11" => c11::run(a),
        "c12" => c12::run(a),
        "c14" => c14::run(a),
        "c15" => c15::run(a),
        "c16" => c16::run(a),
        "c17" => c17::run(a),
        "c18" => c18::run(a),
        "c19" => c19::run(a),
        "smoke" => smoke::run(a),
        other => Err(format!("unknown check {other}")),
    }
}
