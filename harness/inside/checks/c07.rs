//! C07 — endpoints act only on traffic addressed to them; broadcasts are never answered.
//! Part A (E2): exhaustive table over the real `link::layer::Layer`.
//! Part B (E1): application fragments from foreign masters / by broadcast (see sim).

use crate::app::EndpointType;
use crate::link::header::FrameType;
use crate::link::layer::Layer;
use crate::link::parser::FramePayload;
use crate::link::reader::LinkModes;
use crate::link::{EndpointAddress, LinkErrorMode, LinkReadMode};
use crate::outstation::Feature;
use crate::verif::checks::common::*;
use crate::verif::io;
use crate::verif::out::{self, J};
use crate::verif::refcodec::link as rl;
use crate::verif::util::poll_once;
use crate::verif::ShardArgs;
use std::task::Poll;

const P: &str = "C07";

#[derive(Clone, Debug, PartialEq, Eq)]
pub struct Up {
    pub kind: &'static str, // data | status_req | status_rsp
    pub source: u16,
    pub broadcast: u16,
    pub payload: Vec<u8>,
}

pub struct LayerRun {
    pub ups: Vec<Up>,
    pub tx: Vec<rl::Frame>,
    pub tx_garbage: bool,
    pub error: Option<String>,
}

pub struct LayerDriver {
    layer: Layer,
    pipe: io::Pipe,
    phys: crate::util::phys::PhysLayer,
    lvl: usize,
}

impl LayerDriver {
    pub fn new(master: bool, local: u16, self_addr: bool, lvl: usize) -> Self {
        let (pipe, phys) = io::phys_pipe(None);
        let layer = Layer::new(
            LinkModes {
                error_mode: LinkErrorMode::Discard,
                read_mode: LinkReadMode::Stream,
            },
            2048,
            if master {
                EndpointType::Master
            } else {
                EndpointType::Outstation
            },
            if self_addr {
                Feature::Enabled
            } else {
                Feature::Disabled
            },
            EndpointAddress::try_new(local).unwrap(),
        );
        LayerDriver {
            layer,
            pipe,
            phys,
            lvl,
        }
    }

    /// feed bytes, run the layer until it blocks, return what went up and what was written
    pub fn feed(&mut self, bytes: &[u8]) -> LayerRun {
        self.pipe.push(bytes);
        let mut ups = vec![];
        let mut error = None;
        let mut payload = FramePayload::new();
        loop {
            let r = {
                let mut fut = std::pin::pin!(self.layer.read(
                    &mut self.phys,
                    decode_level(self.lvl),
                    &mut payload
                ));
                poll_once(fut.as_mut())
            };
            match r {
                Poll::Pending => break,
                Poll::Ready(Err(e)) => {
                    error = Some(format!("{e:?}"));
                    break;
                }
                Poll::Ready(Ok(info)) => ups.push(Up {
                    kind: match info.frame_type {
                        FrameType::Data => "data",
                        FrameType::LinkStatusRequest => "status_req",
                        FrameType::LinkStatusResponse => "status_rsp",
                    },
                    source: info.source.raw_value(),
                    broadcast: info.broadcast.map(|m| m.address()).unwrap_or(0),
                    payload: if info.frame_type == FrameType::Data {
                        payload.get().to_vec()
                    } else {
                        vec![]
                    },
                }),
            }
        }
        let txb: Vec<u8> = self
            .pipe
            .take_tx()
            .into_iter()
            .flat_map(|t| t.bytes)
            .collect();
        let scan = rl::scan_close(&txb);
        let garbage = scan.error.is_some() || scan.stop != txb.len();
        LayerRun {
            ups,
            tx: scan.frames.into_iter().map(|x| x.1).collect(),
            tx_garbage: garbage,
            error,
        }
    }
}

#[derive(Clone, Copy, Debug, PartialEq, Eq)]
pub enum Sec {
    NotReset,
    Reset(bool),
}

/// Reference expectation, written from the property text.
/// returns (delivered up?, reply function or None, reply constrained?)
pub struct Expect {
    pub up: Option<&'static str>,
    pub reply: Option<u8>,
    /// false: presence of a reply is left unconstrained (malformed FCV combinations)
    pub reply_constrained: bool,
    pub new_sec: Sec,
}

pub fn expect(master: bool, self_addr: bool, local: u16, sec: Sec, f: &rl::Frame) -> Expect {
    let none = Expect {
        up: None,
        reply: None,
        reply_constrained: true,
        new_sec: sec,
    };
    // direction: must come from the opposite station type
    if f.is_from_master() == master {
        return none;
    }
    // source must be an ordinary address
    if f.src >= 0xFFF0 {
        return none;
    }
    let broadcast = match f.dest {
        d if d == local => false,
        0xFFFC => {
            if self_addr && !master || (self_addr && master) {
                // the self-address feature is an outstation feature; a master never enables it
                if !self_addr {
                    return none;
                }
                false
            } else {
                return none;
            }
        }
        0xFFFD..=0xFFFF => {
            if master {
                return none;
            }
            true
        }
        _ => return none,
    };
    let func = f.ctrl & 0x4F;
    let fcv = f.ctrl & rl::FCV != 0;
    let fcb = f.ctrl & rl::FCB != 0;
    if broadcast && func != rl::F_UNCONFIRMED_DATA && func != rl::F_CONFIRMED_DATA {
        return none;
    }
    match func {
        rl::F_UNCONFIRMED_DATA => {
            if fcv {
                return Expect {
                    reply_constrained: broadcast,
                    ..none
                };
            }
            Expect {
                up: Some("data"),
                reply: None,
                reply_constrained: true,
                new_sec: sec,
            }
        }
        rl::F_RESET_LINK => {
            if fcv {
                return Expect {
                    reply_constrained: false,
                    ..none
                };
            }
            Expect {
                up: None,
                reply: Some(rl::F_ACK),
                reply_constrained: true,
                new_sec: Sec::Reset(true),
            }
        }
        rl::F_CONFIRMED_DATA => {
            if !fcv {
                return Expect {
                    reply_constrained: broadcast,
                    ..none
                };
            }
            match sec {
                // data cannot be accepted before a reset; whether a NACK-like reply is sent is not constrained
                Sec::NotReset => Expect {
                    up: None,
                    reply: None,
                    reply_constrained: broadcast,
                    new_sec: sec,
                },
                Sec::Reset(expected) => {
                    let reply = if broadcast { None } else { Some(rl::F_ACK) };
                    if fcb == expected {
                        Expect {
                            up: Some("data"),
                            reply,
                            reply_constrained: true,
                            new_sec: Sec::Reset(!expected),
                        }
                    } else {
                        Expect {
                            up: None,
                            reply,
                            reply_constrained: true,
                            new_sec: sec,
                        }
                    }
                }
            }
        }
        rl::F_REQUEST_LINK_STATUS => {
            if fcv {
                return Expect {
                    reply_constrained: false,
                    ..none
                };
            }
            Expect {
                up: Some("status_req"),
                reply: Some(rl::F_LINK_STATUS),
                reply_constrained: true,
                new_sec: sec,
            }
        }
        rl::F_LINK_STATUS => Expect {
            up: Some("status_rsp"),
            reply: None,
            reply_constrained: true,
            new_sec: sec,
        },
        // everything else (test link states, ack, nack, not supported, unknown): no delivery of data;
        // a reply to another primary function is not constrained by the property, replies to
        // secondary frames must not exist
        _ => Expect {
            up: None,
            reply: None,
            reply_constrained: f.ctrl & rl::PRM == 0,
            new_sec: sec,
        },
    }
}

fn frame_s(f: &rl::Frame) -> String {
    format!(
        "ctrl={:#04x} dest={:#06x} src={:#06x} len={}",
        f.ctrl,
        f.dest,
        f.src,
        f.payload.len()
    )
}

fn check_one(
    a: &ShardArgs,
    master: bool,
    self_addr: bool,
    local: u16,
    sec: Sec,
    f: &rl::Frame,
    run: &LayerRun,
    class: &str,
) {
    out::eval(1);
    let e = expect(master, self_addr, local, sec, f);
    let role = if master { "master" } else { "outstation" };
    let mut bad: Vec<(&str, String)> = vec![];
    if run.error.is_some() || run.tx_garbage {
        bad.push((
            "io",
            format!("error={:?} garbage={}", run.error, run.tx_garbage),
        ));
    }
    // what went up
    match (e.up, run.ups.as_slice()) {
        (None, []) => {}
        (Some(k), [u]) if u.kind == k => {
            let want_bc = if f.dest >= 0xFFFD { f.dest } else { 0 };
            if u.source != f.src
                || u.broadcast != want_bc
                || (k == "data" && u.payload != f.payload)
            {
                bad.push(("delivery_content", format!("delivered {u:?}")));
            }
        }
        (want, got) => bad.push(("delivery", format!("expected up={want:?} got {got:?}"))),
    }
    // replies
    let own_dir = if master { rl::DIR } else { 0 };
    for t in &run.tx {
        let ok_shape = t.dest == f.src
            && t.src == local
            && (t.ctrl & rl::DIR) == own_dir
            && t.payload.is_empty();
        if !ok_shape {
            bad.push(("reply_shape", format!("reply {}", frame_s(t))));
        }
    }
    if e.reply_constrained {
        match (e.reply, run.tx.as_slice()) {
            (None, []) => {}
            (Some(func), [t]) if (t.ctrl & 0x4F) == func && (t.ctrl & (rl::FCB | rl::FCV)) == 0 => {
            }
            (want, got) => bad.push((
                "reply",
                format!(
                    "expected reply {want:?}, got {:?}",
                    got.iter().map(frame_s).collect::<Vec<_>>()
                ),
            )),
        }
    } else if run.tx.len() > 1 {
        bad.push(("reply", "more than one reply".into()));
    }
    if f.dest >= 0xFFFD && !run.tx.is_empty() {
        bad.push((
            "broadcast_answered",
            format!(
                "{} bytes written after a broadcast frame",
                run.tx.len() * 10
            ),
        ));
    }
    for (rule, why) in bad {
        out::violation(
            P,
            &format!("C07.link_{rule}"),
            &format!("{role}|{class}"),
            J::obj(vec![
                ("why", J::s(why)),
                ("role", J::s(role)),
                ("self_address", J::B(self_addr)),
                ("secondary_state", J::s(format!("{sec:?}"))),
                ("frame", J::s(frame_s(f))),
                ("bytes", J::hex(&f.encode())),
            ]),
            J::obj(vec![("check", J::s("c07")), ("seed", J::U(a.seed))]),
        );
    }
}

fn fclass(f: &rl::Frame, local: u16) -> String {
    let func = match f.ctrl & 0x4F {
        rl::F_UNCONFIRMED_DATA => "unconf",
        rl::F_CONFIRMED_DATA => "conf",
        rl::F_RESET_LINK => "reset",
        rl::F_REQUEST_LINK_STATUS => "reqstatus",
        rl::F_TEST_LINK => "test",
        rl::F_LINK_STATUS => "status",
        rl::F_ACK => "ack",
        rl::F_NACK => "nack",
        x if x & 0x40 != 0 => "pri-other",
        _ => "sec-other",
    };
    let d = match f.dest {
        x if x == local => "own",
        0xFFFC => "self",
        0xFFFD..=0xFFFF => "bcast",
        0xFFF0..=0xFFFB => "reserved",
        _ => "other",
    };
    let s = match f.src {
        0xFFFC => "self",
        0xFFFD..=0xFFFF => "bcast",
        0xFFF0..=0xFFFB => "reserved",
        _ => "ordinary",
    };
    format!(
        "{func}/fcv{}/dest-{d}/src-{s}",
        (f.ctrl & rl::FCV != 0) as u8
    )
}

pub fn run_link_table(a: &ShardArgs) -> Result<(), String> {
    let dests = |local: u16| [local, 77u16, 0xFFFC, 0xFFFF, 0xFFFE, 0xFFFD, 0xFFF5];
    let srcs = [1u16, 2, 0xFFFC, 0xFFFF, 0xFFF0, 0, 0xFFEF];
    for ctrl in 0u16..=255 {
        if (ctrl as u64) % a.nshards != a.shard {
            continue;
        }
        let ctrl = ctrl as u8;
        out::progress(&format!("A ctrl={ctrl:#04x}"));
        for master in [false, true] {
            let local: u16 = if master { 1 } else { 1024 };
            let peer: u16 = if master { 1024 } else { 1 };
            for self_addr in [false, true] {
                if master && self_addr {
                    continue; // masters have no self-address feature (Reader::master passes Disabled)
                }
                for dest in dests(local) {
                    for src in srcs {
                        for (pi, payload) in [vec![], vec![0xC0u8, 0xC1, 0x01, 0x3C, 0x01, 0x06]]
                            .iter()
                            .enumerate()
                        {
                            for sec in [Sec::NotReset, Sec::Reset(true), Sec::Reset(false)] {
                                let lvl =
                                    (ctrl as usize + pi * 7 + dest as usize) % NUM_DECODE_LEVELS;
                                let mut d = LayerDriver::new(master, local, self_addr, lvl);
                                // establish the secondary state with well-formed frames from the peer
                                let peer_dir = if master { 0 } else { rl::DIR };
                                match sec {
                                    Sec::NotReset => {}
                                    Sec::Reset(exp) => {
                                        let r = d.feed(
                                            &rl::Frame::new(
                                                rl::F_RESET_LINK | peer_dir,
                                                local,
                                                peer,
                                                &[],
                                            )
                                            .encode(),
                                        );
                                        if r.tx.len() != 1 {
                                            return Err(
                                                "setup: reset link states not acknowledged".into(),
                                            );
                                        }
                                        if !exp {
                                            let r = d.feed(
                                                &rl::Frame::new(
                                                    rl::F_CONFIRMED_DATA
                                                        | peer_dir
                                                        | rl::FCV
                                                        | rl::FCB,
                                                    local,
                                                    peer,
                                                    &[0xC0, 0xC0, 0x17],
                                                )
                                                .encode(),
                                            );
                                            if r.ups.len() != 1 || r.tx.len() != 1 {
                                                return Err(
                                                    "setup: first confirmed frame not delivered"
                                                        .into(),
                                                );
                                            }
                                        }
                                    }
                                }
                                let f = rl::Frame::new(ctrl, dest, src, payload);
                                let run = d.feed(&f.encode());
                                let class = fclass(&f, local);
                                check_one(a, master, self_addr, local, sec, &f, &run, &class);
                                out::distinct(&format!(
                                    "A/{}/{}/sa{}/{:?}/{}",
                                    if master { "m" } else { "o" },
                                    class,
                                    self_addr as u8,
                                    sec,
                                    pi
                                ));
                                // follow-up: the layer still works — a link status request is answered
                                let probe = rl::Frame::new(
                                    rl::F_REQUEST_LINK_STATUS | peer_dir,
                                    local,
                                    peer,
                                    &[],
                                );
                                let pr = d.feed(&probe.encode());
                                if pr.tx.len() == 1
                                    && pr.tx[0].ctrl & 0x4F == rl::F_LINK_STATUS
                                    && pr.ups.len() == 1
                                {
                                    out::count("link_status_answered", 1);
                                } else {
                                    out::violation(
                                        P,
                                        "C07.link_status_not_answered",
                                        &format!(
                                            "{}|after {}",
                                            if master { "master" } else { "outstation" },
                                            class
                                        ),
                                        J::obj(vec![
                                            ("after", J::s(frame_s(&f))),
                                            ("replies", J::U(pr.tx.len() as u64)),
                                        ]),
                                        J::obj(vec![
                                            ("check", J::s("c07")),
                                            ("seed", J::U(a.seed)),
                                        ]),
                                    );
                                }
                            }
                        }
                    }
                }
            }
        }
    }
    Ok(())
}

/// random sequences of confirmed-data / reset frames against the FCB state machine
pub fn run_fcb_sequences(a: &ShardArgs) -> Result<(), String> {
    let mut r = a.rng("c07/fcb");
    let n = a.n(1500);
    for it in 0..n {
        let master = r.chance(1, 4);
        let local: u16 = if master { 1 } else { 1024 };
        let peer: u16 = if master { 1024 } else { 1 };
        let peer_dir = if master { 0 } else { rl::DIR };
        let mut d = LayerDriver::new(master, local, false, r.usize_below(NUM_DECODE_LEVELS));
        let mut sec = Sec::NotReset;
        let mut delivered_per_toggle = 0u32;
        let steps = r.range(3, 30);
        let mut history = vec![];
        for _ in 0..steps {
            let f = match r.below(10) {
                0 => rl::Frame::new(rl::F_RESET_LINK | peer_dir, local, peer, &[]),
                1 => rl::Frame::new(rl::F_UNCONFIRMED_DATA | peer_dir, local, peer, &r.bytes(5)),
                2 => rl::Frame::new(rl::F_REQUEST_LINK_STATUS | peer_dir, local, peer, &[]),
                3 if !master => rl::Frame::new(
                    rl::F_CONFIRMED_DATA | peer_dir | rl::FCV | if r.bool() { rl::FCB } else { 0 },
                    0xFFFD + r.below(3) as u16,
                    peer,
                    &r.bytes(4),
                ),
                4 => rl::Frame::new(
                    rl::F_CONFIRMED_DATA | peer_dir | rl::FCV | if r.bool() { rl::FCB } else { 0 },
                    local,
                    2 + r.below(3) as u16,
                    &r.bytes(4),
                ),
                _ => rl::Frame::new(
                    rl::F_CONFIRMED_DATA | peer_dir | rl::FCV | if r.bool() { rl::FCB } else { 0 },
                    local,
                    peer,
                    &r.bytes(6),
                ),
            };
            let run = d.feed(&f.encode());
            let e = expect(master, false, local, sec, &f);
            history.push(format!(
                "{} -> up={} tx={}",
                frame_s(&f),
                run.ups.len(),
                run.tx.len()
            ));
            check_one(
                a,
                master,
                false,
                local,
                sec,
                &f,
                &run,
                &format!("seq/{}", fclass(&f, local)),
            );
            if (f.ctrl & 0x4F) == rl::F_CONFIRMED_DATA && run.ups.iter().any(|u| u.kind == "data") {
                out::count("confirmed_delivered", 1);
            }
            if (f.ctrl & 0x4F) == rl::F_CONFIRMED_DATA
                && run.ups.is_empty()
                && matches!(sec, Sec::Reset(_))
            {
                out::count("confirmed_duplicate_suppressed", 1);
            }
            sec = e.new_sec;
        }
        out::distinct(&format!(
            "B/fcbseq/{}/{}",
            if master { "m" } else { "o" },
            steps
        ));
        if it == 0 {
            out::sample(J::obj(vec![
                ("kind", J::s("FCB sequence")),
                ("history", J::arr(history.into_iter())),
            ]));
        }
    }
    Ok(())
}

pub fn run(a: &ShardArgs) -> Result<(), String> {
    if a.replay.is_none() {
        run_link_table(a)?;
        run_fcb_sequences(a)?;
    }
    run_app(a)?;
    Ok(())
}

// ---------------------------------------------------------------------------
// Part B (E1): application fragments from a foreign master / by broadcast

use crate::verif::gen;
use crate::verif::refcodec::app as ra;
use crate::verif::sim::outstation::*;
use crate::verif::sim::*;

fn app_fragment(r: &mut crate::verif::rng::Rng, seq: u8) -> (Vec<u8>, &'static str) {
    match r.below(16) {
        // functions an outstation executes when they arrive by broadcast
        9 => (
            ra::B::request(ra::F_WRITE, seq)
                .range8(80, 1, 7, 7, &[0])
                .done(),
            "valid-write-clear-restart",
        ),
        10 => (
            ra::B::request(ra::F_WRITE, seq)
                .count8(50, 1, 1, &ra::time48(1_600_000_000_000))
                .done(),
            "valid-write-time",
        ),
        11 => (
            ra::B::request(
                *r.pick(&[
                    ra::F_IMMED_FREEZE_NR,
                    ra::F_FREEZE_CLEAR_NR,
                    ra::F_IMMED_FREEZE,
                    ra::F_FREEZE_CLEAR,
                ]),
                seq,
            )
            .all(20, 0)
            .done(),
            "valid-freeze",
        ),
        12 => (
            ra::B::request(ra::F_RECORD_CURRENT_TIME, seq).done(),
            "valid-record-time",
        ),
        13 => (
            ra::B::request(*r.pick(&[ra::F_ENABLE_UNSOL, ra::F_DISABLE_UNSOL]), seq)
                .all(60, 2)
                .all(60, 3)
                .done(),
            "valid-enable-disable",
        ),
        14 => {
            let mut d = ra::time48(1_600_000_000_000);
            d.extend_from_slice(&1000u32.to_le_bytes());
            (
                ra::B::request(
                    *r.pick(&[ra::F_FREEZE_AT_TIME, ra::F_FREEZE_AT_TIME_NR]),
                    seq,
                )
                .count8(50, 2, 1, &d)
                .all(20, 0)
                .done(),
                "valid-freeze-at-time",
            )
        }
        15 => (
            ra::B::request(
                *r.pick(&[ra::F_COLD_RESTART, ra::F_WARM_RESTART, ra::F_DELAY_MEASURE]),
                seq,
            )
            .done(),
            "valid-no-objects",
        ),
        0 => (
            ra::B::request(ra::F_READ, seq).all(60, 1).done(),
            "valid-read",
        ),
        1 => (
            ra::B::request(ra::F_DIRECT_OPERATE, seq)
                .raw(&gen::control_objects(r, 1))
                .done(),
            "valid-direct-operate",
        ),
        2 => (
            ra::B::request(ra::F_DIRECT_OPERATE_NR, seq)
                .raw(&gen::control_objects(r, 1))
                .done(),
            "valid-direct-operate-nr",
        ),
        3 => (vec![0xC0 | seq, 0x70], "unknown-function"),
        4 => (vec![0xC0 | seq, ra::F_RESPONSE, 0, 0], "response-function"),
        5 => (
            ra::B::with_ctrl(ra::FIR | seq, ra::F_READ)
                .all(60, 1)
                .done(),
            "bad-flags",
        ),
        6 => (
            ra::B::request(ra::F_READ, seq).raw(&[0xEE, 1, 6]).done(),
            "unknown-object",
        ),
        7 => (
            ra::B::request(ra::F_WRITE, seq)
                .raw(&[1, 2, 0, 0, 5, 1])
                .done(),
            "truncated-objects",
        ),
        _ => (vec![0xC0 | seq], "one-byte"),
    }
}

async fn app_scenario(a: &ShardArgs, idx: u64) {
    let mut r = a.rng(&format!("c07b/{idx}"));
    let mut cfg = OutCfg::default();
    cfg.broadcast = r.bool();
    cfg.any_master = r.chance(1, 4);
    cfg.self_address = r.chance(1, 4);
    cfg.unsolicited = r.chance(1, 3);
    cfg.decode = r.usize_below(108);
    cfg.discard = r.bool();
    cfg.confirm_timeout_ms = 5000;
    let state_kind = if cfg.unsolicited { 2 } else { r.below(2) };
    let mut rr = r.fork();
    let mut sim = OutSim::start_with(cfg.clone(), |db| {
        crate::verif::checks::c12::populate(db, &mut rr, 3);
        crate::verif::checks::c12::some_events(db, &mut rr, 3, 4, 100);
    })
    .await;
    let _ = sim.collect();
    let _ = sim.mock.take();
    let mut seq = r.below(16) as u8;
    let state = match state_kind {
        0 => "idle",
        1 => {
            // enter a solicited confirm wait
            seq = (seq + 1) & 15;
            let rx = sim
                .request(
                    &ra::B::request(ra::F_READ, seq)
                        .all(60, 2)
                        .all(60, 3)
                        .all(60, 4)
                        .done(),
                )
                .await;
            let waiting = rx
                .iter()
                .filter_map(|x| x.fragment())
                .any(|f| f[0] & ra::CON != 0);
            let _ = sim.mock.take();
            if waiting {
                "sol-confirm-wait"
            } else {
                "idle"
            }
        }
        _ => "unsol-confirm-wait", // the null unsolicited response is outstanding
    };
    let n = r.range(1, 5);
    let mut hist = vec![];
    for _ in 0..n {
        seq = (seq + 1) & 15;
        if r.chance(1, 6) {
            // one application fragment whose transport segments come from two link sources: a valid DIRECT_OPERATE of 60
            // analog outputs, cut in two segments, one sent by a foreign master and one by the configured master. Whatever
            // the configuration, a fragment is assembled from one source only: nothing is executed, nothing is answered
            let mut b = ra::B::request(ra::F_DIRECT_OPERATE, seq);
            let items: Vec<(u16, Vec<u8>)> = (0..60u16).map(|i| (i, vec![(i & 0x7F) as u8, 0, 0])).collect();
            b = b.prefixed16(41, 2, &items);
            let frag = b.done();
            let segs = crate::verif::refcodec::transport::segment(&frag, r.below(64) as u8);
            let foreign_first = r.bool();
            let mut wire = vec![];
            for (k, sgm) in segs.iter().enumerate() {
                let src = if (k == 0) == foreign_first { 7u16 } else { cfg.master_addr };
                wire.extend(rl::Frame::new(0xC4, cfg.out_addr, src, sgm).encode());
            }
            hist.push(format!(
                "mixed sources (foreign master sends the {} segment) DIRECT_OPERATE of 60 objects, {} segments",
                if foreign_first { "first" } else { "last" },
                segs.len()
            ));
            sim.send_bytes(&wire, &[]);
            settle().await;
            let rx = sim.collect();
            let evs = sim.mock.take();
            out::eval(1);
            let side: Vec<String> = evs
                .iter()
                .filter(|(_, e)| e.is_side_effect())
                .map(|(_, e)| format!("{e:?}"))
                .collect();
            let answered = rx.iter().any(|x| {
                matches!(x, Rx::Fragment { bytes, .. } if bytes.len() >= 2 && bytes[1] == ra::F_RESPONSE)
            });
            if !side.is_empty() || answered {
                out::violation(
                    P,
                    "C07.app_mixed_sources",
                    &format!("{}|{state}", if foreign_first { "foreign-first" } else { "foreign-last" }),
                    J::obj(vec![
                        ("why", J::s(format!("a fragment whose segments came from two link sources was {}: {side:?}", if side.is_empty() { "answered" } else { "executed" }))),
                        ("state", J::s(state)),
                        ("history", J::arr(hist.iter().cloned())),
                        ("config", cfg.to_json()),
                    ]),
                    J::obj(vec![
                        ("check", J::s("c07")),
                        ("seed", J::U(a.seed)),
                        ("shard", J::U(a.shard)),
                        ("nshards", J::U(a.nshards)),
                        ("scenario", J::U(idx)),
                    ]),
                );
            } else {
                out::count("mixed_source_fragment_ignored", 1);
            }
            continue;
        }
        if r.chance(1, 7) {
            // a frame that is not for this outstation (another destination, or a foreign master) carrying a complete, valid
            // DIRECT_OPERATE, then in the same read a header-only user-data frame (LEN 5) from the configured master to this
            // outstation: the second frame carries nothing, so nothing is executed and nothing is answered
            let frag = ra::B::request(ra::F_DIRECT_OPERATE, seq)
                .prefixed16(41, 2, &[(r.below(3) as u16, vec![9, 0, 0])])
                .done();
            let segs = crate::verif::refcodec::transport::segment(&frag, r.below(64) as u8);
            let other_dest = r.bool();
            let (d1, s1) = if other_dest && !cfg.self_address {
                (cfg.out_addr.wrapping_add(1 + r.below(3) as u16), cfg.master_addr)
            } else {
                (cfg.out_addr, 7u16)
            };
            let foreign_is_accepted = d1 == cfg.out_addr && cfg.any_master;
            let mut wire = vec![];
            for sgm in &segs {
                wire.extend(rl::Frame::new(0xC4, d1, s1, sgm).encode());
            }
            let pre = r.below(3);
            for _ in 0..=pre {
                wire.extend(rl::Frame::new(0xC4, cfg.out_addr, cfg.master_addr, &[]).encode());
            }
            hist.push(format!(
                "frame with a DIRECT_OPERATE for dest={d1} from src={s1}, then {} header-only user-data frame(s) for this outstation, one read",
                pre + 1
            ));
            sim.send_bytes(&wire, &[]);
            settle().await;
            let rx = sim.collect();
            let evs = sim.mock.take();
            out::eval(1);
            if !foreign_is_accepted {
                let side: Vec<String> = evs
                    .iter()
                    .filter(|(_, e)| e.is_side_effect())
                    .map(|(_, e)| format!("{e:?}"))
                    .collect();
                let answered = rx.iter().any(|x| {
                    matches!(x, Rx::Fragment { bytes, .. } if bytes.len() >= 2 && bytes[1] == ra::F_RESPONSE)
                });
                if !side.is_empty() || answered {
                    out::violation(
                        P,
                        "C07.app_stale_payload",
                        &format!("{}|{state}", if d1 != cfg.out_addr { "other-destination" } else { "foreign-master" }),
                        J::obj(vec![
                            ("why", J::s(format!("the payload of a frame that was not for this outstation was {} when an empty frame for it followed: {side:?}", if side.is_empty() { "answered" } else { "executed" }))),
                            ("state", J::s(state)),
                            ("history", J::arr(hist.iter().cloned())),
                            ("config", cfg.to_json()),
                        ]),
                        J::obj(vec![
                            ("check", J::s("c07")),
                            ("seed", J::U(a.seed)),
                            ("shard", J::U(a.shard)),
                            ("nshards", J::U(a.nshards)),
                            ("scenario", J::U(idx)),
                        ]),
                    );
                } else {
                    out::count("empty_frame_after_rejected_frame_ignored", 1);
                }
            }
            continue;
        }
        let (frag, kind) = app_fragment(&mut r, seq);
        let (who, src, dest) = match r.below(6) {
            0 => ("configured-master", cfg.master_addr, cfg.out_addr),
            1 | 2 => ("other-master", 7u16, cfg.out_addr),
            _ => {
                let d = 0xFFFD + r.below(3) as u16;
                (
                    ["bcast-fffd", "bcast-fffe", "bcast-ffff"][(d - 0xFFFD) as usize],
                    if r.chance(1, 4) { 7 } else { cfg.master_addr },
                    d,
                )
            }
        };
        hist.push(format!(
            "{who} src={src} dest={dest:#x} {kind} {}",
            crate::verif::util::hex(&frag)
        ));
        sim.send_from(src, dest, &frag, &[]);
        settle().await;
        let rx = sim.collect();
        let evs = sim.mock.take();
        out::eval(1);
        out::distinct(&format!(
            "B/{who}/{kind}/{state}/bc{}/any{}",
            cfg.broadcast as u8, cfg.any_master as u8
        ));
        let wrote: Vec<String> = rx.iter().map(|x| format!("{x:?}")).collect();
        let side: Vec<String> = evs
            .iter()
            .filter(|(_, e)| e.is_side_effect())
            .map(|(_, e)| format!("{e:?}"))
            .collect();
        let viol = |rule: &str, sig: String, why: String| {
            out::violation(
                P,
                &format!("C07.{rule}"),
                &sig,
                J::obj(vec![
                    ("why", J::s(why)),
                    ("state", J::s(state)),
                    ("history", J::arr(hist.iter().cloned())),
                    ("written", J::arr(wrote.iter().take(3).cloned())),
                    ("config", cfg.to_json()),
                ]),
                J::obj(vec![
                    ("check", J::s("c07")),
                    ("seed", J::U(a.seed)),
                    ("shard", J::U(a.shard)),
                    ("nshards", J::U(a.nshards)),
                    ("scenario", J::U(idx)),
                ]),
            );
        };
        let is_bcast = dest >= 0xFFFD;
        if is_bcast {
            if !rx.is_empty() {
                viol(
                    "app_broadcast_answered",
                    format!("{kind}|{state}"),
                    format!(
                        "{} item(s) transmitted after a broadcast fragment",
                        rx.len()
                    ),
                );
            } else {
                out::count("broadcast_silent", 1);
            }
            if src != cfg.master_addr && !cfg.any_master && !side.is_empty() {
                viol(
                    "app_foreign_executed",
                    format!("broadcast|{kind}"),
                    format!("broadcast from a foreign master executed: {side:?}"),
                );
            }
            if !cfg.broadcast && !side.is_empty() {
                viol(
                    "app_broadcast_executed_when_disabled",
                    kind.to_string(),
                    format!("broadcast executed although the feature is disabled: {side:?}"),
                );
            }
            if cfg.broadcast && src == cfg.master_addr && kind == "valid-direct-operate-nr" {
                if side.is_empty() {
                    viol(
                        "app_broadcast_not_executed",
                        kind.to_string(),
                        "broadcast DIRECT_OPERATE_NR from the configured master was not executed"
                            .into(),
                    );
                } else {
                    out::count("broadcast_executed", 1);
                }
            }
        } else if who == "other-master" && !cfg.any_master {
            if !rx.is_empty() {
                viol(
                    "app_foreign_answered",
                    format!("{kind}|{state}"),
                    format!(
                        "{} item(s) transmitted in reply to a fragment from a foreign master",
                        rx.len()
                    ),
                );
            } else {
                out::count("foreign_silent", 1);
            }
            if !side.is_empty() {
                viol(
                    "app_foreign_executed",
                    format!("unicast|{kind}"),
                    format!("fragment from a foreign master executed: {side:?}"),
                );
            }
        } else if who == "other-master" {
            // any-master: answered to the sender
            for x in &rx {
                if let Rx::Fragment { dest: d, bytes, .. } = x {
                    // unsolicited responses (e.g. a retry that the request interrupted) go to the configured master
                    if bytes.len() >= 2 && bytes[1] == ra::F_UNSOL_RESPONSE {
                        continue;
                    }
                    if *d != src {
                        viol(
                            "app_reply_address",
                            kind.to_string(),
                            format!("reply sent to {d} instead of the requesting master {src}"),
                        );
                    } else {
                        out::count("any_master_reply_ok", 1);
                    }
                }
            }
        } else {
            for x in &rx {
                if let Rx::Fragment { dest: d, .. } = x {
                    if *d != cfg.master_addr {
                        viol(
                            "app_reply_address",
                            kind.to_string(),
                            format!("reply sent to {d}"),
                        );
                    }
                }
            }
            if !rx.is_empty() {
                out::count("configured_master_answered", 1);
            }
        }
    }
    for p in crate::verif::util::take_panics() {
        out::violation(
            P,
            "C07.panic",
            &crate::verif::util::norm_location(&p.location),
            J::s(format!("{} at {}", p.message, p.location)),
            J::Null,
        );
    }
}

/// part M: the real master channel (the link layer as the master task configures it). Frames addressed to the master are
/// answered / delivered; frames for the self address 0xFFFC (a master has no self-address feature), for another address
/// or for a broadcast address get no reply and nothing of theirs reaches a handler.
async fn master_scenario(a: &ShardArgs, idx: u64) {
    use crate::verif::rec::Item;
    use crate::verif::sim::master::*;
    let mut r = a.rng(&format!("c07m/{idx}"));
    let mc = MasterCfg::default();
    let maddr = mc.master_addr;
    let out_addr = 1024u16;
    let mut sim = MasterSim::start(mc, &[AssocCfg::quiet(out_addr)]).await;
    let _ = sim.collect();
    let _ = sim.assocs[0].2.take();
    let mut hist: Vec<String> = vec![];
    let mut useq = r.below(16) as u8;
    for _ in 0..r.range(3, 8) {
        let (what, dest): (&str, u16) = match r.below(6) {
            0 | 1 => ("own", maddr),
            2 => ("self-address", 0xFFFC),
            3 => ("other", maddr.wrapping_add(1 + r.below(5) as u16)),
            4 => ("broadcast", 0xFFFD + r.below(3) as u16),
            _ => ("self-address", 0xFFFC),
        };
        let link = r.bool();
        useq = (useq + 1) & 15;
        let bytes = if link {
            rl::Frame::new(rl::F_REQUEST_LINK_STATUS, dest, out_addr, &[]).encode()
        } else {
            // an unsolicited response with one analog event that asks for confirmation, in one segment
            let frag = ra::B::response(ra::FIR | ra::FIN | ra::UNS | ra::CON | useq, true, 0, 0)
                .prefixed8(32, 1, &[(3, vec![1, useq, 0, 0, 0])])
                .done();
            let mut seg = vec![0xC0 | (r.below(64) as u8)];
            seg.extend_from_slice(&frag);
            rl::Frame::data(false, dest, out_addr, &seg).encode()
        };
        hist.push(format!("{} for {what} ({dest:#06x})", if link { "REQUEST_LINK_STATUS" } else { "unsolicited response" }));
        sim.send_bytes(&bytes);
        settle().await;
        let rx = sim.collect();
        let items = sim.assocs[0].2.take();
        out::eval(1);
        out::distinct(&format!("M/{what}/{}", if link { "link" } else { "data" }));
        let replied = rx.iter().any(|x| matches!(x, Rx::Link { .. } | Rx::Fragment { .. }));
        let delivered = items.iter().any(|i| matches!(i, Item::M(_)));
        let own = what == "own";
        let bad = if own { !replied || (!link && !delivered) } else { replied || delivered };
        if bad {
            out::violation(
                P,
                "C07.master_addressing",
                &format!("{what}|{}", if link { "link" } else { "data" }),
                J::obj(vec![
                    ("why", J::s(format!("frame for {what} address {dest:#06x}: master wrote something = {replied}, handler received objects = {delivered}"))),
                    ("history", J::arr(hist.iter().cloned())),
                ]),
                J::obj(vec![
                    ("check", J::s("c07")),
                    ("seed", J::U(a.seed)),
                    ("shard", J::U(a.shard)),
                    ("nshards", J::U(a.nshards)),
                    ("scenario", J::U(idx)),
                ]),
            );
        } else {
            out::count(if own { "master_own_address_served" } else { "master_foreign_address_ignored" }, 1);
            if what == "self-address" {
                out::count("master_self_address_ignored", 1);
            }
        }
    }
    for p in crate::verif::util::take_panics() {
        out::violation(
            P,
            "C07.panic",
            &crate::verif::util::norm_location(&p.location),
            J::s(format!("{} at {} (master)", p.message, p.location)),
            J::Null,
        );
    }
}

pub fn run_app(a: &ShardArgs) -> Result<(), String> {
    let only: Option<u64> = a
        .replay
        .as_ref()
        .and_then(|p| super::common::replay_scenario(p));
    let n = a.n(5000);
    for idx in 0..n {
        if idx % a.nshards != a.shard {
            continue;
        }
        if let Some(o) = only {
            if o != idx {
                continue;
            }
        }
        out::progress(&format!("B scenario {idx}"));
        run_scenario(app_scenario(a, idx));
    }
    if only.is_none() {
        for idx in 0..a.n(80) {
            if idx % a.nshards != a.shard {
                continue;
            }
            out::progress(&format!("M scenario {idx}"));
            run_scenario(master_scenario(a, idx));
        }
    }
    Ok(())
}
