//! C06 — only intact link frames are delivered, and every frame sent is recovered.
//! Engine E2: the real `link::reader::Reader` (ReadBuffer + Parser) driven
//! through `PhysLayer::Verif` with exact chunk boundaries; oracle = reference
//! de-framer / scanner with a bit-serial CRC (refcodec::link).

use crate::decode::DecodeLevel;
use crate::link::error::LinkError;
use crate::link::header::{AnyAddress, ControlField, Header};
use crate::link::parser::FramePayload;
use crate::link::reader::{LinkModes, Reader};
use crate::link::{LinkErrorMode, LinkReadMode};
use crate::verif::io;
use crate::verif::out::{self, J};
use crate::verif::refcodec::link as rl;
use crate::verif::rng::Rng;
use crate::verif::util::{hex, poll_once};
use crate::verif::ShardArgs;
use std::task::Poll;

const P: &str = "C06";

#[derive(Clone, Copy, Debug, PartialEq, Eq)]
pub struct Mode {
    pub discard: bool,
    pub datagram: bool,
}

impl Mode {
    fn name(&self) -> String {
        format!(
            "{}/{}",
            if self.discard { "discard" } else { "close" },
            if self.datagram { "datagram" } else { "stream" }
        )
    }
    fn modes(&self) -> LinkModes {
        LinkModes {
            error_mode: if self.discard {
                LinkErrorMode::Discard
            } else {
                LinkErrorMode::Close
            },
            read_mode: if self.datagram {
                LinkReadMode::Datagram
            } else {
                LinkReadMode::Stream
            },
        }
    }
}

pub struct Delivered {
    pub frames: Vec<rl::Frame>,
    pub error: Option<LinkError>,
}

/// Feed `chunks` to a fresh library Reader and collect everything it delivers.
pub fn run_reader(
    chunks: &[Vec<u8>],
    mode: Mode,
    max_fragment: usize,
    level: DecodeLevel,
) -> Delivered {
    let (pipe, mut phys) = io::phys_pipe(None);
    for c in chunks {
        pipe.push(c);
    }
    let mut reader = Reader::new(mode.modes(), max_fragment);
    let mut payload = FramePayload::new();
    let mut frames = Vec::new();
    let mut error = None;
    loop {
        let res = {
            let mut fut = std::pin::pin!(reader.read_frame(&mut phys, &mut payload, level));
            poll_once(fut.as_mut())
        };
        match res {
            Poll::Pending => break,
            Poll::Ready(Ok((header, _))) => {
                frames.push(rl::Frame {
                    ctrl: header.control.to_u8(),
                    dest: header.destination.value(),
                    src: header.source.value(),
                    payload: payload.get().to_vec(),
                });
            }
            Poll::Ready(Err(e)) => {
                error = Some(e);
                break;
            }
        }
    }
    Delivered { frames, error }
}

/// what the reference says must be delivered for these chunks in this mode
pub fn reference(chunks: &[Vec<u8>], mode: Mode) -> (Vec<rl::Frame>, bool) {
    let scan = |b: &[u8]| {
        if mode.discard {
            rl::scan_discard(b)
        } else {
            rl::scan_close(b)
        }
    };
    if mode.datagram {
        let mut frames = vec![];
        for c in chunks {
            let s = scan(c);
            frames.extend(s.frames.into_iter().map(|x| x.1));
            if s.error.is_some() {
                return (frames, true);
            }
        }
        (frames, false)
    } else {
        let all: Vec<u8> = chunks.iter().flatten().copied().collect();
        let s = scan(&all);
        let err = s.error.is_some();
        (s.frames.into_iter().map(|x| x.1).collect(), err)
    }
}

fn frame_j(f: &rl::Frame) -> J {
    J::obj(vec![
        ("ctrl", J::U(f.ctrl as u64)),
        ("dest", J::U(f.dest as u64)),
        ("src", J::U(f.src as u64)),
        ("payload", J::hex(&f.payload)),
    ])
}

fn chunks_j(chunks: &[Vec<u8>]) -> J {
    J::A(chunks.iter().map(|c| J::hex(c)).collect())
}

/// run one case: library vs reference; returns number of frames delivered
fn check_case(
    a: &ShardArgs,
    label: &str,
    class: &str,
    chunks: &[Vec<u8>],
    mode: Mode,
    max_fragment: usize,
    level: DecodeLevel,
) -> usize {
    check_case_full(a, label, class, chunks, mode, max_fragment, level)
        .frames
        .len()
}

fn check_case_full(
    a: &ShardArgs,
    label: &str,
    class: &str,
    chunks: &[Vec<u8>],
    mode: Mode,
    max_fragment: usize,
    level: DecodeLevel,
) -> Delivered {
    out::eval(1);
    let got = run_reader(chunks, mode, max_fragment, level);
    let (want, want_err) = reference(chunks, mode);
    out::count("frames_delivered", got.frames.len() as u64);
    out::count("frames_expected", want.len() as u64);
    let got_err_frame = matches!(got.error, Some(LinkError::BadFrame(_)));
    let got_err_logic = matches!(got.error, Some(LinkError::BadLogic(_)));
    let mut bad: Option<(&str, String)> = None;
    if got_err_logic {
        bad = Some(("logic_error", format!("{:?}", got.error)));
    } else if got.frames != want {
        // classify: soundness (delivered something the reference does not) or completeness
        let extra = got.frames.iter().any(|f| !want.contains(f)) || got.frames.len() > want.len();
        if extra {
            bad = Some((
                "soundness",
                "delivered a frame the reference de-framer does not find".into(),
            ));
        } else {
            bad = Some((
                "completeness",
                "a frame the reference de-framer finds was not delivered".into(),
            ));
        }
    } else if !mode.discard && want_err != got_err_frame {
        bad = Some((
            "close_mode_error",
            format!("reference error={want_err} library error={:?}", got.error),
        ));
    } else if mode.discard && got_err_frame {
        bad = Some((
            "discard_mode_error",
            format!("library returned {:?} in discard mode", got.error),
        ));
    }
    if let Some((rule, why)) = bad {
        let sig = format!("{}|{}|{}", rule, mode.name(), class);
        out::violation(
            P,
            &format!("C06.{rule}"),
            &sig,
            J::obj(vec![
                ("why", J::s(why)),
                ("label", J::s(label)),
                ("mode", J::s(mode.name())),
                ("max_fragment", J::U(max_fragment as u64)),
                ("chunks", chunks_j(chunks)),
                ("delivered", J::A(got.frames.iter().map(frame_j).collect())),
                ("expected", J::A(want.iter().map(frame_j).collect())),
                ("library_error", J::s(format!("{:?}", got.error))),
            ]),
            J::obj(vec![
                ("check", J::s("c06")),
                ("seed", J::U(a.seed)),
                ("shard", J::U(a.shard)),
                ("nshards", J::U(a.nshards)),
                ("mode", J::s(mode.name())),
                ("max_fragment", J::U(max_fragment as u64)),
                ("chunks", chunks_j(chunks)),
            ]),
        );
    }
    got
}

fn split_every(bytes: &[u8], n: usize) -> Vec<Vec<u8>> {
    bytes.chunks(n.max(1)).map(|c| c.to_vec()).collect()
}

fn split_at(bytes: &[u8], k: usize) -> Vec<Vec<u8>> {
    let k = k.min(bytes.len());
    let mut v = vec![];
    if k > 0 {
        v.push(bytes[..k].to_vec());
    }
    if k < bytes.len() {
        v.push(bytes[k..].to_vec());
    }
    v
}

fn split_random(r: &mut Rng, bytes: &[u8]) -> Vec<Vec<u8>> {
    let mut v = vec![];
    let mut pos = 0;
    while pos < bytes.len() {
        let n = match r.below(4) {
            0 => 1,
            1 => r.range(1, 9) as usize,
            2 => r.range(1, 40) as usize,
            _ => r.range(1, 400) as usize,
        }
        .min(bytes.len() - pos);
        v.push(bytes[pos..pos + n].to_vec());
        pos += n;
    }
    v
}

const LEVELS: usize = 4;
fn level(i: usize) -> DecodeLevel {
    use crate::decode::*;
    let mut d = DecodeLevel::nothing();
    match i % LEVELS {
        0 => {}
        1 => {
            d.link = LinkDecodeLevel::Header;
        }
        2 => {
            d.link = LinkDecodeLevel::Payload;
            d.physical = PhysDecodeLevel::Length;
        }
        _ => {
            d.link = LinkDecodeLevel::Payload;
            d.physical = PhysDecodeLevel::Data;
        }
    }
    d
}

/// ask the LIBRARY to format a frame (completeness is stated about frames it formats)
fn lib_format(ctrl: u8, dest: u16, src: u16, payload: &[u8]) -> Result<Vec<u8>, String> {
    use crate::link::format::{format_data_frame, format_header_only, Payload};
    let header = Header::new(
        ControlField::from(ctrl),
        AnyAddress::from(dest),
        AnyAddress::from(src),
    );
    let mut buf = [0u8; 292];
    let mut cur = scursor::WriteCursor::new(&mut buf);
    let r = if payload.is_empty() {
        format_header_only(header, &mut cur).map(|d| d.frame.to_vec())
    } else {
        format_data_frame(header, Payload::new(payload[0], &payload[1..]), &mut cur)
            .map(|d| d.frame.to_vec())
    };
    r.map_err(|_| "BadWrite".to_string())
}

const MAX_FRAGS: [usize; 6] = [249, 250, 292, 498, 1000, 2048];

fn pick_mode(r: &mut Rng) -> Mode {
    Mode {
        discard: r.bool(),
        datagram: false,
    }
}

fn addr(r: &mut Rng) -> u16 {
    match r.below(8) {
        0 => 0,
        1 => 1,
        2 => 1024,
        3 => 0xFFFC,
        4 => 0xFFFD + r.below(3) as u16,
        5 => 0xFFF0 + r.below(12) as u16,
        6 => 0x0564,
        _ => r.u16(),
    }
}

fn payload_bytes(r: &mut Rng, len: usize) -> Vec<u8> {
    match r.below(5) {
        0 => vec![0x05; len],
        1 => vec![0x00; len],
        2 => vec![0xFF; len],
        3 => {
            // looks like frame starts
            let pat = [0x05u8, 0x64, 0x05, 0xC0];
            (0..len).map(|i| pat[i % 4]).collect()
        }
        _ => r.bytes(len),
    }
}

pub fn run(a: &ShardArgs) -> Result<(), String> {
    let mut r = a.rng("c06");
    let thorough = a.thorough();

    // ---------------------------------------------------------------- part A
    // every payload length 0..=250 (sharded), 8 headers each (all 256 control
    // bytes covered across lengths), every single split point, 1-byte reads,
    // random multi-splits, all buffer sizes, both error modes; exhaustive
    // weight-1 bit flips.
    let mut ctrl_cursor: u32 = (a.shard as u32) * 37;
    for len in 0..=250usize {
        if (len as u64) % a.nshards != a.shard {
            continue;
        }
        out::progress(&format!("A len={len}"));
        for h in 0..8 {
            let ctrl = (ctrl_cursor % 256) as u8;
            ctrl_cursor = ctrl_cursor.wrapping_add(1);
            let (dest, src) = (addr(&mut r), addr(&mut r));
            let payload = payload_bytes(&mut r, len);
            let lib = lib_format(ctrl, dest, src, &payload)?;
            let reff = rl::Frame::new(ctrl, dest, src, &payload).encode();
            out::count("frames_formatted", 1);
            if lib != reff {
                out::violation(
                    P,
                    "C06.format",
                    &format!("format|len{}", if len == 0 { "0" } else { "n" }),
                    J::obj(vec![
                        (
                            "why",
                            J::s("library formatter and reference framer disagree"),
                        ),
                        ("library", J::hex(&lib)),
                        ("reference", J::hex(&reff)),
                    ]),
                    J::obj(vec![("check", J::s("c06")), ("seed", J::U(a.seed))]),
                );
                continue;
            }
            let lenclass = match len {
                0 => "0".to_string(),
                1..=15 => "1-15".into(),
                16 => "16".into(),
                17..=249 => format!("b{}r{}", len / 16, if len % 16 == 0 { 0 } else { 1 }),
                _ => "250".into(),
            };
            // two copies back to back so that the state after a frame is exercised too
            let mut stream = lib.clone();
            stream.extend_from_slice(&lib);
            for (mi, mode) in [
                Mode {
                    discard: true,
                    datagram: false,
                },
                Mode {
                    discard: false,
                    datagram: false,
                },
            ]
            .iter()
            .enumerate()
            {
                let mf = MAX_FRAGS[(h + mi + len) % MAX_FRAGS.len()];
                let lv = level(h + len);
                // whole
                let n = check_case(a, "whole", "whole", &[stream.clone()], *mode, mf, lv);
                out::distinct(&format!("A/{}/{}/whole/mf{}", mode.name(), lenclass, mf));
                if n == 2 {
                    out::count("roundtrip_ok", 1);
                }
                // one byte at a time
                check_case(
                    a,
                    "bytewise",
                    "bytewise",
                    &split_every(&stream, 1),
                    *mode,
                    mf,
                    lv,
                );
                out::distinct(&format!("A/{}/{}/bytewise", mode.name(), lenclass));
                // every single split point (first header only, to bound cost; others sampled)
                if h == 0 || thorough {
                    for k in 1..stream.len() {
                        check_case(
                            a,
                            "split1",
                            "split1",
                            &split_at(&stream, k),
                            *mode,
                            mf,
                            level(0),
                        );
                    }
                    out::count("single_split_sweeps", 1);
                    out::distinct(&format!("A/{}/{}/allsplits", mode.name(), lenclass));
                } else {
                    for _ in 0..6 {
                        let k = r.range(1, stream.len() as u64 - 1) as usize;
                        check_case(
                            a,
                            "split1",
                            "split1",
                            &split_at(&stream, k),
                            *mode,
                            mf,
                            level(0),
                        );
                    }
                }
                // random multi-splits
                for _ in 0..4 {
                    let c = split_random(&mut r, &stream);
                    check_case(a, "multisplit", "multisplit", &c, *mode, mf, lv);
                }
                out::distinct(&format!("A/{}/{}/multisplit", mode.name(), lenclass));
            }
            // datagram mode: whole frame per datagram is delivered; split frame never stitched
            for discard in [true, false] {
                let mode = Mode {
                    discard,
                    datagram: true,
                };
                let mf = MAX_FRAGS[(h + len) % MAX_FRAGS.len()];
                let n = check_case(
                    a,
                    "dgram-whole",
                    "dgram-whole",
                    &[lib.clone(), lib.clone()],
                    mode,
                    mf,
                    level(h),
                );
                if n == 2 {
                    out::count("datagram_whole_ok", 1);
                }
                if lib.len() >= 2 {
                    let k = r.range(1, lib.len() as u64 - 1) as usize;
                    let mut c = split_at(&lib, k);
                    c.push(lib.clone());
                    // reference: the two pieces are dropped, the whole datagram is delivered
                    let n = check_case(a, "dgram-split", "dgram-split", &c, mode, mf, level(h));
                    out::count("datagram_split_cases", 1);
                    if n == 1 {
                        out::count("datagram_split_not_stitched", 1);
                    }
                }
                out::distinct(&format!("A/{}/{}/dgram", mode.name(), lenclass));
            }
            // straddle the ReadBuffer end: fill the buffer with many frames in odd chunks
            {
                let mf = *r.pick(&MAX_FRAGS);
                let mode = Mode {
                    discard: r.bool(),
                    datagram: false,
                };
                let mut big = Vec::new();
                let copies = (mf / 249 + 2) * 292 / lib.len().max(10) + 3;
                for _ in 0..copies.min(400) {
                    big.extend_from_slice(&lib);
                }
                let csize = r.range(1, 700) as usize;
                check_case(
                    a,
                    "wrap",
                    "wrap",
                    &split_every(&big, csize),
                    mode,
                    mf,
                    level(0),
                );
                out::count("buffer_wrap_cases", 1);
                out::distinct(&format!("A/{}/{}/wrap/mf{}", mode.name(), lenclass, mf));
            }
            // exhaustive weight-1
            if h < 2 || thorough {
                for bit in 0..lib.len() * 8 {
                    let mut m = lib.clone();
                    m[bit / 8] ^= 1 << (bit % 8);
                    // followed by an intact copy: must still be found in discard mode
                    // after the damaged one has been flushed
                    let mode = Mode {
                        discard: bit % 2 == 0,
                        datagram: false,
                    };
                    let n =
                        check_case(a, "flip1", "flip1", &[m, lib.clone()], mode, 2048, level(0));
                    out::count("flip1", 1);
                    if n <= 1 {
                        out::count("flip1_rejected", 1);
                    }
                }
                out::distinct(&format!("B/flip1-exhaustive/{}", lenclass));
            }
        }
    }

    // ---------------------------------------------------------------- part B
    // weight-2 exhaustive on special lengths (pairs sharded by first index),
    // sampled weight 2/3/heavier elsewhere
    let special: &[usize] = if thorough {
        &[0, 1, 15, 16, 17, 31, 32, 33, 250]
    } else {
        &[0, 1, 15, 16, 17]
    };
    for &len in special {
        out::progress(&format!("B w2 len={len}"));
        let payload = payload_bytes(&mut a.rng(&format!("c06/w2/{len}")), len);
        let f = rl::Frame::new(0xC4, 1, 1024, &payload).encode();
        let bits = f.len() * 8;
        let mut pairs = 0u64;
        for i in 0..bits {
            if (i as u64) % a.nshards != a.shard {
                continue;
            }
            for j in (i + 1)..bits {
                let mut m = f.clone();
                m[i / 8] ^= 1 << (i % 8);
                m[j / 8] ^= 1 << (j % 8);
                let mode = Mode {
                    discard: (i + j) % 2 == 0,
                    datagram: false,
                };
                let n = check_case(a, "flip2", "flip2", &[m], mode, 2048, level(0));
                pairs += 1;
                if n == 0 {
                    out::count("flip2_rejected", 1);
                }
            }
        }
        out::count("flip2", pairs);
        out::distinct(&format!("B/flip2-exhaustive/len{len}"));
    }
    let sampled = a.n(12_000);
    for i in 0..sampled {
        if i % 2000 == 0 {
            out::progress(&format!("B sampled {i}"));
        }
        let len = match r.below(4) {
            0 => *r.pick(&[0usize, 1, 15, 16, 17, 31, 32, 33, 249, 250]),
            _ => r.range(0, 250) as usize,
        };
        let payload = payload_bytes(&mut r, len);
        let f = rl::Frame::new(r.u8(), addr(&mut r), addr(&mut r), &payload).encode();
        let w = match r.below(10) {
            0..=3 => 2,
            4..=7 => 3,
            8 => r.range(4, 8) as usize,
            _ => r.range(9, 64) as usize,
        };
        let mut m = f.clone();
        let bits = f.len() * 8;
        let mut chosen = std::collections::BTreeSet::new();
        while chosen.len() < w.min(bits) {
            chosen.insert(r.usize_below(bits));
        }
        // half the time cluster the errors in one block (burst)
        for b in &chosen {
            m[b / 8] ^= 1 << (b % 8);
        }
        let mode = pick_mode(&mut r);
        let chunks = if r.bool() {
            vec![m.clone()]
        } else {
            split_random(&mut r, &m)
        };
        let got = check_case_full(
            a,
            "flipN",
            &format!("flip{}", w.min(4)),
            &chunks,
            mode,
            *r.pick(&MAX_FRAGS),
            level(i as usize),
        );
        let key = format!("flip{}", if w <= 3 { w.to_string() } else { "4+".into() });
        out::count(&key, 1);
        // the damaged frame itself must not come out; frames that happen to be embedded in its
        // payload are strictly shorter, so "same payload length" identifies the damaged one
        let leaked = got.frames.iter().any(|g| g.payload.len() == len);
        if !leaked {
            out::count(&format!("{key}_rejected"), 1);
        }
        if w <= 3 && leaked {
            // model independent statement of the property
            out::violation(
                P,
                "C06.soundness_weight_le3",
                &format!("w{w}"),
                J::obj(vec![("frame", J::hex(&f)), ("mutated", J::hex(&m))]),
                J::obj(vec![
                    ("check", J::s("c06")),
                    ("seed", J::U(a.seed)),
                    ("chunks", chunks_j(&chunks)),
                ]),
            );
        }
        out::distinct(&format!("B/sampled/w{}/{}", w.min(4), mode.name()));
    }

    // ---------------------------------------------------------------- part C
    // noise followed by a valid frame, every chunking class, discard and close
    let noise_cases = a.n(10_000);
    for i in 0..noise_cases {
        if i % 2000 == 0 {
            out::progress(&format!("C noise {i}"));
        }
        let kind = r.below(9);
        let nlen = match r.below(3) {
            0 => r.range(1, 4) as usize,
            1 => r.range(1, 30) as usize,
            _ => r.range(1, 400) as usize,
        };
        let mut noise: Vec<u8> = match kind {
            0 => r.bytes(nlen),
            1 => vec![0x05; nlen],
            2 => {
                let mut n = r.bytes(nlen);
                n.push(0x05);
                n
            }
            3 => {
                let mut n = r.bytes(nlen);
                n.extend_from_slice(&[0x05, 0x64]);
                n
            }
            4 => {
                // a header prefix of a valid frame
                let f = rl::Frame::new(0xC4, 1, 1024, &r.bytes(20)).encode();
                let k = r.range(3, 9) as usize;
                let mut n = r.bytes(nlen % 5);
                n.extend_from_slice(&f[..k]);
                n
            }
            5 => {
                // valid header, bad body
                let mut f = rl::Frame::new(0xC4, 1, 1024, &{
                    let n = r.range(1, 250) as usize;
                    r.bytes(n)
                })
                .encode();
                let k = r.range(10, f.len() as u64 - 1) as usize;
                f[k] ^= 1 << r.below(8);
                f
            }
            6 => {
                // valid header announcing a long body, then truncated
                let f = rl::Frame::new(0xC4, 1, 1024, &{
                    let n = r.range(40, 250) as usize;
                    r.bytes(n)
                })
                .encode();
                let k = r.range(10, 30) as usize;
                f[..k].to_vec()
            }
            7 => vec![0x05, 0x64, 0x05],
            _ => {
                let mut n = vec![0x11];
                n.push(0x05);
                n
            }
        };
        // avoid noise that accidentally contains a valid frame start making the oracle ambiguous:
        // not needed — the oracle is the leftmost-valid scanner over the whole stream.
        let flen = match r.below(3) {
            0 => 0,
            1 => r.range(1, 17) as usize,
            _ => r.range(0, 250) as usize,
        };
        let target = rl::Frame::new(
            if r.bool() { 0xC4 } else { r.u8() },
            addr(&mut r),
            addr(&mut r),
            &payload_bytes(&mut r, flen),
        );
        let tbytes = target.encode();
        let mode = Mode {
            discard: r.below(4) != 0,
            datagram: false,
        };
        // flush: enough clean frames after the target to push out any false header
        let mut tail = Vec::new();
        let filler = rl::Frame::new(0x44, 2, 3, &[0xAA; 250]).encode();
        tail.extend_from_slice(&filler);
        tail.extend_from_slice(&filler);
        let chunk_class = r.below(5);
        let mut chunks: Vec<Vec<u8>> = Vec::new();
        let cname;
        match chunk_class {
            0 => {
                cname = "one-read";
                let mut all = noise.clone();
                all.extend_from_slice(&tbytes);
                all.extend_from_slice(&tail);
                chunks.push(all);
            }
            1 => {
                cname = "noise|frame";
                chunks.push(noise.clone());
                chunks.push(tbytes.clone());
                chunks.push(tail.clone());
            }
            2 => {
                cname = "bytewise";
                let mut all = noise.clone();
                all.extend_from_slice(&tbytes);
                all.extend_from_slice(&tail);
                chunks = split_every(&all, 1);
            }
            3 => {
                cname = "random";
                let mut all = noise.clone();
                all.extend_from_slice(&tbytes);
                all.extend_from_slice(&tail);
                chunks = split_random(&mut r, &all);
            }
            _ => {
                cname = "noise-split|frame";
                let k = r.range(0, noise.len() as u64) as usize;
                chunks.extend(split_at(&noise, k));
                chunks.push(tbytes.clone());
                chunks.push(tail.clone());
            }
        }
        let mf = *r.pick(&MAX_FRAGS);
        let got = check_case(
            a,
            "noise",
            &format!("noise{kind}/{cname}"),
            &chunks,
            mode,
            mf,
            level(i as usize),
        );
        out::count("noise_cases", 1);
        // model independent completeness statement (discard mode): if the reference
        // scanner finds the target at its own offset, the library must deliver it.
        if mode.discard {
            let all: Vec<u8> = chunks.iter().flatten().copied().collect();
            let scan = rl::scan_discard(&all);
            let at = noise.len();
            if scan.frames.iter().any(|(p, f)| *p == at && *f == target) {
                out::count("noise_target_findable", 1);
                let lib = run_reader(&chunks, mode, mf, level(0));
                if lib.frames.contains(&target) {
                    out::count("noise_target_found", 1);
                } else {
                    out::violation(
                        P,
                        "C06.discard_completeness",
                        &format!("noise{kind}|{cname}"),
                        J::obj(vec![
                            (
                                "why",
                                J::s("valid frame after noise was not delivered in discard mode"),
                            ),
                            ("noise", J::hex(&noise)),
                            ("frame", J::hex(&tbytes)),
                            ("chunking", J::s(cname)),
                        ]),
                        J::obj(vec![
                            ("check", J::s("c06")),
                            ("seed", J::U(a.seed)),
                            ("mode", J::s(mode.name())),
                            ("max_fragment", J::U(mf as u64)),
                            ("chunks", chunks_j(&chunks)),
                        ]),
                    );
                }
            }
        }
        out::distinct(&format!("C/{}/noise{}/{}", mode.name(), kind, cname));
        let _ = got;
    }

    // samples
    let f = rl::Frame::new(0xC4, 1, 1024, &[0xC0, 0xC1, 0x01, 0x3C, 0x01, 0x06]);
    out::sample(J::obj(vec![
        (
            "kind",
            J::s("round trip under every split point, bit flips of weight 1..3, noise+frame"),
        ),
        ("example_frame", J::hex(&f.encode())),
        (
            "example_noise_case",
            J::s(
                "noise=05 64 | frame | 2 filler frames, delivered in separate reads, discard mode",
            ),
        ),
    ]));
    Ok(())
}
