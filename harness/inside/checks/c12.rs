//! C12 — outstation replies are well-formed, correlated, bounded, and report rejections.
//! Engine E1: real OutstationTask+ServerTask over the pipe; generated requests of
//! every function code / flag / object shape in three session states.

use crate::app::measurement::*;
use crate::outstation::database::*;
use crate::verif::gen::{self, Expect, Req};
use crate::verif::out::{self, J};
use crate::verif::refcodec::app as ra;
use crate::verif::rng::Rng;
use crate::verif::sim::outstation::*;
use crate::verif::sim::*;
use crate::verif::util::hex;
use crate::verif::ShardArgs;

const P: &str = "C12";

pub fn populate(db: &mut Database, r: &mut Rng, n: u16) {
    let classes = [
        Some(EventClass::Class1),
        Some(EventClass::Class2),
        Some(EventClass::Class3),
        None,
    ];
    for i in 0..n {
        db.add(i, *r.pick(&classes), BinaryInputConfig::default());
        db.add(i, *r.pick(&classes), DoubleBitBinaryInputConfig::default());
        db.add(i, *r.pick(&classes), BinaryOutputStatusConfig::default());
        db.add(i, *r.pick(&classes), CounterConfig::default());
        db.add(i, *r.pick(&classes), FrozenCounterConfig::default());
        db.add(i, *r.pick(&classes), AnalogInputConfig::default());
        db.add(i, *r.pick(&classes), AnalogOutputStatusConfig::default());
        db.add(i, *r.pick(&classes), OctetStringConfig);
    }
}

pub fn some_events(db: &mut Database, r: &mut Rng, n: u16, count: usize, t0: u64) {
    for k in 0..count {
        let i = r.below(n.max(1) as u64) as u16;
        let t = Time::synchronized(t0 + k as u64);
        match r.below(8) {
            4 => {
                db.update(
                    i,
                    &DoubleBitBinaryInput::new(
                        [DoubleBit::Intermediate, DoubleBit::DeterminedOff, DoubleBit::DeterminedOn, DoubleBit::Indeterminate][r.usize_below(4)],
                        Flags::ONLINE,
                        t,
                    ),
                    UpdateOptions::new(true, EventMode::Force),
                );
            }
            5 => {
                db.update(
                    i,
                    &BinaryOutputStatus::new(r.bool(), Flags::ONLINE, t),
                    UpdateOptions::new(true, EventMode::Force),
                );
            }
            6 => {
                db.update(
                    i,
                    &FrozenCounter::new(r.u32(), Flags::ONLINE, t),
                    UpdateOptions::new(true, EventMode::Force),
                );
            }
            7 => {
                db.update(
                    i,
                    &AnalogOutputStatus::new(r.u32() as f64 / 7.0, Flags::ONLINE, t),
                    UpdateOptions::new(true, EventMode::Force),
                );
            }
            0 => {
                db.update(
                    i,
                    &BinaryInput::new(r.bool(), Flags::new(0x01 | (r.u8() & 0x1E)), t),
                    UpdateOptions::new(true, EventMode::Force),
                );
            }
            1 => {
                db.update(
                    i,
                    &AnalogInput::new(r.u32() as f64 / 3.0, Flags::ONLINE, t),
                    UpdateOptions::new(true, EventMode::Force),
                );
            }
            2 => {
                db.update(
                    i,
                    &Counter::new(r.u32(), Flags::ONLINE, t),
                    UpdateOptions::new(true, EventMode::Force),
                );
            }
            _ => {
                let n = r.range(1, 12) as usize;
                db.update(
                    i,
                    &OctetString::new(&r.bytes(n)).unwrap(),
                    UpdateOptions::new(true, EventMode::Force),
                );
            }
        }
    }
}

struct Ctx<'a> {
    a: &'a ShardArgs,
    idx: u64,
    cfg: OutCfg,
    state: &'static str,
    history: Vec<String>,
    last_unsol: Option<Vec<u8>>,
}

impl Ctx<'_> {
    fn viol(&mut self, rule: &str, sig: &str, why: String, req: Option<&Req>, frag: Option<&[u8]>) {
        out::violation(
            P,
            &format!("C12.{rule}"),
            sig,
            J::obj(vec![
                ("why", J::s(why)),
                ("state", J::s(self.state)),
                ("request", req.map(|q| J::hex(&q.bytes)).unwrap_or(J::Null)),
                (
                    "request_class",
                    req.map(|q| J::s(q.class.clone())).unwrap_or(J::Null),
                ),
                (
                    "fragment",
                    frag.map(|f| J::hex(&f[..f.len().min(300)]))
                        .unwrap_or(J::Null),
                ),
                ("config", self.cfg.to_json()),
                (
                    "history",
                    J::arr(self.history.iter().rev().take(12).rev().cloned()),
                ),
            ]),
            J::obj(vec![
                ("check", J::s("c12")),
                ("seed", J::U(self.a.seed)),
                ("shard", J::U(self.a.shard)),
                ("nshards", J::U(self.a.nshards)),
                ("scenario", J::U(self.idx)),
            ]),
        );
    }

    /// S2 + S4 for an unsolicited fragment
    fn check_unsol(&mut self, f: &[u8]) {
        out::count("unsol_fragments_checked", 1);
        let fr = match ra::Fragment::parse(f) {
            Some(x) => x,
            None => {
                self.viol(
                    "S4_parse",
                    "unsol|short",
                    "unsolicited fragment shorter than a response header".into(),
                    None,
                    Some(f),
                );
                return;
            }
        };
        if !(fr.uns() && fr.fir() && fr.fin() && fr.con()) || fr.func != ra::F_UNSOL_RESPONSE {
            self.viol(
                "S2_flags",
                &format!("ctrl={:02x}", fr.ctrl & 0xF0),
                format!(
                    "unsolicited response with control {:02x} function {}",
                    fr.ctrl, fr.func
                ),
                None,
                Some(f),
            );
        }
        if let Some(prev) = &self.last_unsol {
            let pseq = prev[0] & 0x0F;
            if prev.as_slice() == f {
                out::count("unsol_retries_seen", 1);
            } else if fr.seq() != (pseq + 1) & 0x0F {
                self.viol(
                    "S2_seq",
                    "unsol-seq",
                    format!(
                        "new unsolicited response has sequence {} after {}",
                        fr.seq(),
                        pseq
                    ),
                    None,
                    Some(f),
                );
            } else {
                out::count("unsol_seq_consecutive", 1);
            }
        }
        self.last_unsol = Some(f.to_vec());
        if f.len() > self.cfg.unsol_tx {
            self.viol(
                "S4_size",
                "unsol",
                format!(
                    "unsolicited fragment of {} bytes exceeds the configured {}",
                    f.len(),
                    self.cfg.unsol_tx
                ),
                None,
                Some(f),
            );
        }
        let w = ra::walk(ra::F_UNSOL_RESPONSE, &fr.objects, true);
        if let Some(e) = w.error {
            self.viol(
                "S4_parse",
                "unsol",
                format!("unsolicited fragment does not parse: {e:?}"),
                None,
                Some(f),
            );
        }
    }

    /// S1 + S4 for the solicited fragments that answer `req`; returns true if at least one was there
    fn check_solicited(&mut self, req: &Req, frags: &[Vec<u8>], first_k: usize) {
        for (k, f) in frags.iter().enumerate() {
            let k = k + first_k;
            out::count("sol_fragments_checked", 1);
            let fr = match ra::Fragment::parse(f) {
                Some(x) => x,
                None => {
                    self.viol(
                        "S4_parse",
                        "sol|short",
                        "solicited fragment shorter than a response header".into(),
                        Some(req),
                        Some(f),
                    );
                    continue;
                }
            };
            if fr.uns() || fr.func != ra::F_RESPONSE {
                self.viol(
                    "S1_uns",
                    "sol",
                    format!(
                        "solicited response with control {:02x} function {}",
                        fr.ctrl, fr.func
                    ),
                    Some(req),
                    Some(f),
                );
            }
            let want = (req.seq + k as u8) & 0x0F;
            if fr.seq() != want {
                self.viol(
                    "S1_seq",
                    &format!("frag{}", k.min(2)),
                    format!(
                        "response fragment {k} has sequence {}, request had {} (expected {want})",
                        fr.seq(),
                        req.seq
                    ),
                    Some(req),
                    Some(f),
                );
            } else {
                out::count("S1_seq_ok", 1);
            }
            if fr.fir() != (k == 0) {
                self.viol(
                    "S1_fir",
                    &format!("frag{}", k.min(2)),
                    format!("fragment {k} FIR={}", fr.fir()),
                    Some(req),
                    Some(f),
                );
            }
            if f.len() > self.cfg.sol_tx {
                self.viol(
                    "S4_size",
                    "sol",
                    format!(
                        "solicited fragment of {} bytes exceeds the configured {}",
                        f.len(),
                        self.cfg.sol_tx
                    ),
                    Some(req),
                    Some(f),
                );
            } else {
                out::count("S4_size_ok", 1);
            }
            let w = ra::walk(ra::F_RESPONSE, &fr.objects, true);
            if let Some(e) = w.error {
                self.viol(
                    "S4_parse",
                    "sol",
                    format!("response does not parse: {e:?}"),
                    Some(req),
                    Some(f),
                );
            } else {
                out::count("S4_parse_ok", 1);
            }
        }
    }
}

fn split(rx: Vec<Rx>) -> (Vec<Vec<u8>>, Vec<Vec<u8>>, Vec<Rx>) {
    let (mut sol, mut unsol, mut other) = (vec![], vec![], vec![]);
    for x in rx {
        match &x {
            Rx::Fragment { bytes, .. } => {
                if bytes.len() >= 2 && (bytes[0] & ra::UNS != 0 || bytes[1] == ra::F_UNSOL_RESPONSE)
                {
                    unsol.push(bytes.clone())
                } else {
                    sol.push(bytes.clone())
                }
            }
            _ => other.push(x),
        }
    }
    (sol, unsol, other)
}

async fn scenario(a: &ShardArgs, idx: u64) {
    let mut r = a.rng(&format!("c12/{idx}"));
    let mut cfg = OutCfg::default();
    cfg.sol_tx = *r.pick(&[249usize, 250, 300, 512, 1024, 2048]);
    cfg.unsol_tx = *r.pick(&[249usize, 300, 2048]);
    cfg.rx = *r.pick(&[249usize, 500, 2048]);
    cfg.decode = r.usize_below(108);
    cfg.discard = r.bool();
    cfg.max_controls = if r.chance(1, 4) {
        Some(r.range(0, 3) as u16)
    } else {
        None
    };
    cfg.max_read_headers = if r.chance(1, 6) {
        Some(r.range(1, 4) as u16)
    } else {
        None
    };
    let kind = r.below(4);
    cfg.unsolicited = kind >= 2;
    cfg.confirm_timeout_ms = *r.pick(&[50u64, 1000, 5000]);
    let npoints = *r.pick(&[0u16, 3, 40]);
    let nevents = r.range(0, 30) as usize;
    let mut rr = r.fork();
    let mut sim = OutSim::start_with(cfg.clone(), |db| {
        populate(db, &mut rr, npoints);
        if npoints > 0 {
            some_events(db, &mut rr, npoints, nevents, 1000);
        }
        // device attributes of a private set: a writable visible string and a read-only one
        use crate::app::attr::{AttrProp, AttrSet, OwnedAttrValue, OwnedAttribute};
        let _ = db.define_attr(
            AttrProp::writable(),
            OwnedAttribute::new(AttrSet::new(7), 1, OwnedAttrValue::VisibleString("initial".into())),
        );
        let _ = db.define_attr(
            AttrProp::default(),
            OwnedAttribute::new(AttrSet::new(7), 2, OwnedAttrValue::VisibleString("fixed".into())),
        );
    })
    .await;
    // what the application answers to restart requests and to the processing-delay question
    let restart_delay: Option<(bool, u16)> = match r.below(3) {
        0 => None,
        1 => Some((true, r.u16())),
        _ => Some((false, r.u16())),
    };
    let processing_delay = r.u16();
    sim.mock.script(|s| {
        s.restart_delay = restart_delay.map(|(secs, v)| {
            if secs {
                crate::outstation::RestartDelay::Seconds(v)
            } else {
                crate::outstation::RestartDelay::Milliseconds(v)
            }
        });
        s.processing_delay = processing_delay;
    });
    let state: &'static str = match kind {
        0 => "idle",
        1 => "sol-confirm-wait",
        2 => "unsol-ready",
        _ => "unsol-confirm-wait",
    };
    let mut cx = Ctx {
        a,
        idx,
        cfg: cfg.clone(),
        state,
        history: vec![],
        last_unsol: None,
    };
    let mut seq: u8 = r.below(16) as u8;
    let mut in_unsol_wait = false;

    // initial traffic (null unsolicited)
    let (sol, unsol, other) = split(sim.collect());
    for u in &unsol {
        cx.check_unsol(u);
    }
    if !sol.is_empty() {
        cx.viol(
            "S1_spontaneous",
            "start",
            "solicited response without a request".into(),
            None,
            Some(&sol[0]),
        );
    }
    for o in &other {
        if let Rx::Garbage { why, bytes, .. } = o {
            cx.viol("S4_wire", "garbage", why.clone(), None, Some(bytes));
        }
    }
    if kind == 2 {
        // confirm the null unsolicited response so that the session is idle with unsolicited ready
        if let Some(u) = unsol.last() {
            let c = ra::B::confirm(u[0] & 0x0F, true).done();
            let rx = sim.request(&c).await;
            let (s, us, _) = split(rx);
            for u in &us {
                cx.check_unsol(u);
            }
            if !s.is_empty() {
                cx.viol(
                    "S3_confirm_answered",
                    "unsol-confirm",
                    "a CONFIRM was answered".into(),
                    None,
                    Some(&s[0]),
                );
            }
        }
    }

    let nreq = r.range(1, 6);
    // sequence number of a solicited fragment that still awaits its confirm (a series left unfinished)
    let mut pending: Option<u8> = None;
    for _ in 0..nreq {
        if kind == 1 && npoints > 0 {
            // put the session into a solicited confirm wait: a read that needs confirmation
            seq = (seq + 1) & 0x0F;
            let rd = ra::B::request(ra::F_READ, seq)
                .all(60, 2)
                .all(60, 3)
                .all(60, 4)
                .all(60, 1)
                .done();
            let pre = Req {
                bytes: rd.clone(),
                func: ra::F_READ,
                seq,
                class: "setup-read".into(),
                expect: Expect::Response,
            };
            let (s, us, _) = split(sim.request(&rd).await);
            cx.check_solicited(&pre, &s, 0);
            for u in &us {
                cx.check_unsol(u);
            }
            let waiting = s.last().map(|f| f[0] & ra::CON != 0).unwrap_or(false);
            if waiting {
                out::count("state_sol_confirm_wait_reached", 1);
            }
            pending = s
                .last()
                .filter(|f| f.len() >= 2 && f[0] & ra::CON != 0 && f[0] & ra::FIN == 0)
                .map(|f| f[0] & 0x0F);
        }
        seq = (seq + r.range(1, 3) as u8) & 0x0F;
        let req = gen::c12_request(&mut r, seq, cfg.unsolicited, cfg.rx);
        cx.history.push(format!(
            "t={} {} {}",
            sim.now(),
            req.class,
            hex(&req.bytes[..req.bytes.len().min(40)])
        ));
        out::eval(1);
        for (_, e) in sim.mock.take() {
            match e {
                Ev::EnterUnsolConfirmWait(_) => in_unsol_wait = true,
                Ev::UnsolConfirmed(_) | Ev::UnsolConfirmTimeout(_, false) => in_unsol_wait = false,
                _ => {}
            }
        }
        let state: &'static str = if in_unsol_wait {
            "unsol-confirm-wait"
        } else if kind == 1 {
            "sol-confirm-wait"
        } else if cfg.unsolicited {
            "unsol-ready"
        } else {
            "idle"
        };
        cx.state = state;
        let rx = sim.request(&req.bytes).await;
        let (mut sol, unsol, other) = split(rx);
        for u in &unsol {
            cx.check_unsol(u);
        }
        if req.func == ra::F_CONFIRM
            && req.bytes.len() == 2
            && req.bytes[0] & ra::UNS == 0
            && pending == Some(req.bytes[0] & 0x0F)
        {
            // the generated CONFIRM happens to be the one the outstation is waiting for: what follows is the
            // continuation of the earlier series, not an answer to a CONFIRM
            out::count("generated_confirm_continued_a_series", 1);
            pending = sol
                .last()
                .filter(|f| f.len() >= 2 && f[0] & ra::CON != 0)
                .map(|f| f[0] & 0x0F);
            continue;
        }
        for o in &other {
            if let Rx::Garbage { why, bytes, .. } = o {
                cx.viol("S4_wire", "garbage", why.clone(), Some(&req), Some(bytes));
            }
        }
        // a READ received during an unsolicited confirm wait is answered after the series ends
        let mut deferred = false;
        if cfg.unsolicited
            && sol.is_empty()
            && req.func == ra::F_READ
            && req.bytes[0] & 0xF0 == (ra::FIR | ra::FIN)
        {
            deferred = true;
            sim.advance(cfg.confirm_timeout_ms).await;
            let (s2, us2, _) = split(sim.collect());
            for u in &us2 {
                cx.check_unsol(u);
            }
            sol = s2;
            out::count("deferred_reads", 1);
        }
        cx.check_solicited(&req, &sol, 0);
        let key = format!(
            "{}/{}/{}",
            state,
            req.class,
            if deferred { "deferred" } else { "now" }
        );
        out::distinct(&key);
        match req.expect {
            Expect::NoReply => {
                if !sol.is_empty() {
                    cx.viol(
                        "S3_no_reply",
                        &format!("f{}", req.func),
                        format!("function {} was answered", req.func),
                        Some(&req),
                        Some(&sol[0]),
                    );
                } else {
                    out::count("S3_no_reply_ok", 1);
                }
            }
            Expect::Error => {
                if sol.is_empty() {
                    cx.viol(
                        "S5_silence",
                        &req.class,
                        "request that must be rejected got no response".into(),
                        Some(&req),
                        None,
                    );
                } else {
                    let f = &sol[0];
                    if sol.len() != 1 && !(f[0] & ra::FIN == 0) {
                        cx.viol(
                            "S5_count",
                            &req.class,
                            format!("{} responses to one rejected request", sol.len()),
                            Some(&req),
                            Some(f),
                        );
                    }
                    if f.len() >= 4 && f[3] & ra::IIN2_ERRORS == 0 {
                        cx.viol(
                            "S5_clean",
                            &req.class,
                            format!(
                                "rejected request answered with IIN2={:02x} (no error bit)",
                                f[3]
                            ),
                            Some(&req),
                            Some(f),
                        );
                    } else {
                        out::count("S5_error_reported", 1);
                    }
                }
            }
            Expect::Response | Expect::Clean => {
                if sol.is_empty() {
                    cx.viol(
                        "S1_silence",
                        &req.class,
                        "well-formed request got no response".into(),
                        Some(&req),
                        None,
                    );
                } else {
                    out::count("responses_to_good_requests", 1);
                    // content of the replies whose objects come from the application
                    let f = &sol[0];
                    if req.bytes.len() == 2
                        && f.len() >= 4
                        && matches!(
                            req.func,
                            ra::F_COLD_RESTART | ra::F_WARM_RESTART | ra::F_DELAY_MEASURE
                        )
                    {
                        let want: Option<Vec<u8>> = match req.func {
                            ra::F_DELAY_MEASURE => Some(
                                ra::B { bytes: vec![] }
                                    .count8(52, 2, 1, &processing_delay.to_le_bytes())
                                    .bytes,
                            ),
                            _ => restart_delay.map(|(secs, v)| {
                                ra::B { bytes: vec![] }
                                    .count8(52, if secs { 1 } else { 2 }, 1, &v.to_le_bytes())
                                    .bytes
                            }),
                        };
                        match want {
                            Some(w) => {
                                if f[4..] != w[..] || f[3] & ra::IIN2_ERRORS != 0 {
                                    cx.viol("S2_application_value", &format!("f{}", req.func), format!("function {}: the application answered {restart_delay:?} / processing delay {processing_delay}, the reply carries {} with IIN2 {:02x}", req.func, hex(&f[4..]), f[3]), Some(&req), Some(f));
                                } else {
                                    out::count("S2_application_value_ok", 1);
                                }
                            }
                            None => {
                                if f[3] & ra::IIN2_NO_FUNC == 0 || f.len() != 4 {
                                    cx.viol("S2_application_value", "restart-unsupported", format!("the application does not support function {}; reply IIN2 {:02x} objects {}", req.func, f[3], hex(&f[4..])), Some(&req), Some(f));
                                } else {
                                    out::count("S2_restart_not_supported_ok", 1);
                                }
                            }
                        }
                    }
                }
            }
            Expect::Unconstrained => {}
        }
        // continue a response series by confirming (right sequence) some of the time
        let mut k = sol.len();
        let mut last = sol.last().cloned();
        let mut guard = 0;
        while let Some(f) = last.clone() {
            guard += 1;
            if guard > 40 || f.len() < 2 || f[0] & ra::CON == 0 || !r.chance(2, 3) {
                break;
            }
            let c = ra::B::confirm(f[0] & 0x0F, false).done();
            let (s, us, _) = split(sim.request(&c).await);
            for u in &us {
                cx.check_unsol(u);
            }
            if f[0] & ra::FIN != 0 {
                if !s.is_empty() {
                    cx.viol(
                        "S3_confirm_answered",
                        "final",
                        "fragment sent after the confirm of a final fragment".into(),
                        Some(&req),
                        Some(&s[0]),
                    );
                }
                break;
            }
            cx.check_solicited(&req, &s, k);
            out::count("series_continuations", 1);
            k += s.len();
            last = s.last().cloned();
        }
        // which solicited confirm the outstation is waiting for now. A fragment that drew no solicited response and
        // let no virtual time pass (a CONFIRM of either kind, something ignored) leaves an earlier wait as it was
        if !(sol.is_empty() && !deferred) {
            pending = last
                .as_ref()
                .filter(|f| f.len() >= 2 && f[0] & ra::CON != 0 && f[0] & ra::FIN == 0)
                .map(|f| f[0] & 0x0F);
        }
        if out::sample_count() < 3 && !sol.is_empty() {
            out::sample(J::obj(vec![
                ("state", J::s(state)),
                ("request_class", J::s(req.class.clone())),
                ("request", J::hex(&req.bytes)),
                (
                    "responses",
                    J::A(sol.iter().map(|f| J::hex(&f[..f.len().min(80)])).collect()),
                ),
            ]));
        }
    }
    if a.replay.is_some() {
        for l in crate::verif::trace::tail(120) {
            eprintln!("TRACE {l}");
        }
        for h in &cx.history {
            eprintln!("HIST {h}");
        }
        for e in sim.mock.all() {
            eprintln!("EV {e:?}");
        }
    }
    if sim.task_finished() {
        cx.viol(
            "task_ended",
            "ended",
            "the outstation server task ended".into(),
            None,
            None,
        );
    }
    let panics = crate::verif::util::take_panics();
    for p in panics {
        cx.viol(
            "panic",
            &crate::verif::util::norm_location(&p.location),
            format!("panic: {} at {}", p.message, p.location),
            None,
            None,
        );
    }
}

const STATIC_GROUPS: [u8; 8] = [1, 3, 10, 20, 21, 30, 40, 110];
const EVENT_GROUPS: [u8; 8] = [2, 4, 11, 22, 23, 32, 42, 111];

/// groups a response to a one-header READ of (group, variation) may carry (51 = the common time of g2v3 / g4v3)
fn read_family(g: u8, v: u8) -> Vec<u8> {
    if g == 60 {
        return match v {
            1 => STATIC_GROUPS.to_vec(),
            2..=4 => {
                let mut e = EVENT_GROUPS.to_vec();
                e.push(51);
                e
            }
            _ => vec![],
        };
    }
    if STATIC_GROUPS.contains(&g) || g == 0 || g == 34 {
        return vec![g];
    }
    if EVENT_GROUPS.contains(&g) {
        return if g == 2 || g == 4 { vec![g, 51] } else { vec![g] };
    }
    vec![]
}

/// part T: the READ selection table. One READ per (group, variation) the library knows x qualifier (all objects, 8- and
/// 16-bit range, 8- and 16-bit count) against a database with three points of every type and events of every type: the
/// response carries objects of the requested group only (none for groups that have no point type), of the requested
/// variation when one is named (or the variation it is promoted to), inside the requested range, no more than the
/// requested count, and for a default-variation static READ exactly the points selected.
async fn read_table(a: &ShardArgs) {
    let mut r = a.rng("c12/table");
    let mut cfg = OutCfg::default();
    cfg.sol_tx = 2048;
    cfg.confirm_timeout_ms = 50;
    cfg.class_zero_octets = true;
    let mut rr = r.fork();
    let mut sim = OutSim::start_with(cfg.clone(), |db| {
        populate(db, &mut rr, 3);
        some_events(db, &mut rr, 3, 24, 1000);
    })
    .await;
    let _ = sim.collect();
    let mut cases: Vec<(u8, u8)> = crate::verif::util::all_variations().iter().map(|v| v.to_group_and_var()).collect();
    // and a few the library does not know
    cases.extend([(5u8, 1u8), (31, 9), (33, 9), (60, 5), (60, 0), (1, 3), (200, 1), (255, 255), (43, 9), (35, 1)]);
    // device attributes: the two special variations (all attributes, list of variations) whether the table lists them or not
    for v in [0u8, 254, 255] {
        if !cases.contains(&(0, v)) {
            cases.push((0, v));
        }
    }
    let mut seq = 0u8;
    let mut n = 0u64;
    for (g, v) in cases {
        for q in 0..5u8 {
            n += 1;
            if n % a.nshards != a.shard {
                continue;
            }
            seq = (seq + 1) & 15;
            let b = ra::B::request(ra::F_READ, seq);
            let (rq, range, count, qn): (Vec<u8>, Option<(u32, u32)>, Option<u32>, &str) = match q {
                0 => (b.all(g, v).done(), None, None, "all"),
                // (for device attributes the range names one attribute set: start = stop)
                1 if g == 0 => (b.range8(g, v, 0, 0, &[]).done(), Some((0, 0)), None, "range8"),
                2 if g == 0 => (b.range16(g, v, 0, 0, &[]).done(), Some((0, 0)), None, "range16"),
                1 => (b.range8(g, v, 0, 1, &[]).done(), Some((0, 1)), None, "range8"),
                2 => (b.range16(g, v, 1, 2, &[]).done(), Some((1, 2)), None, "range16"),
                3 => (b.count8(g, v, 2, &[]).done(), None, Some(2), "count8"),
                _ => (b.count16(g, v, 2, &[]).done(), None, Some(2), "count16"),
            };
            let rx = sim.request(&rq).await;
            out::eval(1);
            let frs: Vec<Vec<u8>> = rx
                .iter()
                .filter_map(|x| x.fragment())
                .filter(|f| f.len() >= 4 && f[1] == ra::F_RESPONSE)
                .map(|f| f.to_vec())
                .collect();
            let viol = |rule: &str, why: String, resp: Option<&Vec<u8>>| {
                out::violation(
                    P,
                    &format!("C12.{rule}"),
                    &format!("g{g}v{v}|{qn}"),
                    J::obj(vec![
                        ("why", J::s(why)),
                        ("request", J::s(hex(&rq))),
                        ("response", J::s(resp.map(|x| hex(x)).unwrap_or_default())),
                    ]),
                    J::obj(vec![
                        ("check", J::s("c12")),
                        ("seed", J::U(a.seed)),
                        ("shard", J::U(a.shard)),
                        ("nshards", J::U(a.nshards)),
                    ]),
                );
            };
            let Some(f) = frs.first() else {
                viol("T_read_not_answered", "a READ with one object header got no response".into(), None);
                continue;
            };
            let w = ra::walk(ra::F_RESPONSE, &f[4..], true);
            if w.error.is_some() {
                viol("T_response_unparsable", format!("{:?}", w.error), Some(f));
                continue;
            }
            let family = read_family(g, v);
            let mut ok = true;
            let mut nobj = 0u32;
            let mut idxs: Vec<u32> = vec![];
            for h in &w.headers {
                if !family.contains(&h.group) {
                    ok = false;
                    viol("T_foreign_group", format!("the response to a READ of g{g}v{v} carries g{}v{}", h.group, h.var), Some(f));
                    break;
                }
                if h.group == 51 {
                    continue;
                }
                nobj += h.objs.len() as u32;
                let free_var = matches!(g, 0 | 60 | 110 | 111);
                let promoted = matches!((g, v, h.var), (1, 1, 2) | (3, 1, 2) | (10, 1, 2));
                if v != 0 && !free_var && h.var != v && !promoted {
                    ok = false;
                    viol("T_other_variation", format!("the response to a READ of g{g}v{v} carries g{}v{}", h.group, h.var), Some(f));
                    break;
                }
                for (k, o) in h.objs.iter().enumerate() {
                    let i = o.index.unwrap_or(h.start + k as u32);
                    idxs.push(i);
                    if let Some((lo, hi)) = range {
                        if STATIC_GROUPS.contains(&g) && (i < lo || i > hi) {
                            ok = false;
                            viol("T_outside_range", format!("index {i} in the response to a READ of [{lo}, {hi}]"), Some(f));
                        }
                    }
                }
            }
            if let Some(c) = count {
                if nobj > c {
                    ok = false;
                    viol("T_over_count", format!("{nobj} objects in the response to a READ limited to {c}"), Some(f));
                }
            }
            if ok && STATIC_GROUPS.contains(&g) && v == 0 && count.is_none() {
                let want: Vec<u32> = match range {
                    None => vec![0, 1, 2],
                    Some((lo, hi)) => (lo..=hi).collect(),
                };
                if idxs != want {
                    ok = false;
                    viol("T_selection", format!("a default-variation READ of g{g} {qn} returned indices {idxs:?}, the database holds 0, 1, 2"), Some(f));
                } else {
                    out::count("T_static_selection_exact_ok", 1);
                }
            }
            if ok {
                out::count("T_read_table_ok", 1);
                if family.is_empty() && nobj == 0 {
                    out::count("T_no_objects_for_groups_without_points_ok", 1);
                }
                if nobj > 0 {
                    out::count("T_read_table_with_objects_ok", 1);
                }
            }
            out::distinct(&format!("T/g{g}/{qn}/{}", if nobj > 0 { "objects" } else { "empty" }));
        }
    }
    for p in crate::verif::util::take_panics() {
        out::violation(
            P,
            "C12.panic",
            &crate::verif::util::norm_location(&p.location),
            J::s(format!("{} at {} (READ table)", p.message, p.location)),
            J::Null,
        );
    }
}

/// part L: READs with more object headers than the outstation is configured to take (64 unless configured). The request
/// is not served in full, so its response must say so (IIN2 request-error bit), whether it is answered at once or after
/// having been deferred behind an unsolicited confirm wait; what it does carry is selected by the leading headers.
async fn read_limit(a: &ShardArgs) {
    let mut r = a.rng(&format!("c12/limit/{}", a.shard));
    for round in 0..6u64 {
        let limit = *r.pick(&[None, None, Some(65u16), Some(80), Some(3), Some(1)]);
        let cap = limit.unwrap_or(64) as usize;
        let deferred = round % 2 == 1;
        for over in [0usize, 1, 2, 5] {
            let mut cfg = OutCfg::default();
            cfg.sol_tx = 2048;
            cfg.confirm_timeout_ms = 1000;
            cfg.max_read_headers = limit;
            cfg.unsolicited = deferred;
            let mut rr = r.fork();
            let mut sim = OutSim::start_with(cfg.clone(), |db| populate(db, &mut rr, 9)).await;
            let first = sim.collect();
            let useq = first
                .iter()
                .filter_map(|x| x.fragment())
                .filter(|f| f.len() >= 2 && f[1] == ra::F_UNSOL_RESPONSE)
                .map(|f| f[0] & 15)
                .last();
            if deferred && useq.is_none() {
                continue;
            }
            let n = cap + over;
            let seq = (r.below(16)) as u8;
            let mut b = ra::B::request(ra::F_READ, seq);
            for k in 0..n {
                let i = ((k * 4) % 9) as u8;
                b = b.range8(30, 0, i, i, &[]);
            }
            let rq = b.done();
            let mut rx = sim.request(&rq).await;
            if deferred {
                // the READ waits behind the null unsolicited response; confirming that lets it be served
                if rx.iter().filter_map(|x| x.fragment()).any(|f| f.len() >= 2 && f[1] == ra::F_RESPONSE) {
                    out::count("L_answered_before_the_unsolicited_confirm", 1);
                }
                if let Some(u) = useq {
                    rx.extend(sim.request(&ra::B::confirm(u, true).done()).await);
                }
            }
            out::eval(1);
            let frs: Vec<Vec<u8>> = rx
                .iter()
                .filter_map(|x| x.fragment())
                .filter(|f| f.len() >= 4 && f[1] == ra::F_RESPONSE)
                .map(|f| f.to_vec())
                .collect();
            let how = if deferred { "deferred" } else { "at-once" };
            let viol = |rule: &str, why: String, resp: Option<&Vec<u8>>| {
                out::violation(
                    P,
                    &format!("C12.{rule}"),
                    &format!("{how}|over{}", over.min(2)),
                    J::obj(vec![
                        ("why", J::s(why)),
                        ("limit", J::U(cap as u64)),
                        ("headers", J::U(n as u64)),
                        ("response", J::s(resp.map(|x| hex(&x[..x.len().min(40)])).unwrap_or_default())),
                    ]),
                    J::obj(vec![
                        ("check", J::s("c12")),
                        ("seed", J::U(a.seed)),
                        ("shard", J::U(a.shard)),
                        ("nshards", J::U(a.nshards)),
                    ]),
                );
            };
            let Some(f) = frs.first() else {
                viol("L_read_not_answered", format!("a READ with {n} object headers got no response"), None);
                continue;
            };
            let nobj = ra::decode_response_measurements(&f[4..]).map(|(m, _)| m.len()).unwrap_or(usize::MAX);
            let err = f[3] & (ra::IIN2_NO_FUNC | ra::IIN2_OBJECT_UNKNOWN | ra::IIN2_PARAM_ERROR) != 0;
            if over == 0 {
                if err || nobj != n {
                    viol("L_within_limit", format!("a READ with exactly the admitted {n} one-point headers: error bit {err}, {nobj} objects"), Some(f));
                } else {
                    out::count(&format!("L_at_limit_served_in_full_{how}"), 1);
                }
            } else if nobj >= n && nobj != usize::MAX {
                // served in full although over the limit: nothing was refused, nothing to report
                out::count("L_over_limit_served_in_full", 1);
            } else if !err {
                viol("L_truncation_not_reported", format!("a READ with {n} one-point headers (limit {cap}) was answered with {nobj} objects and no IIN2 error bit"), Some(f));
            } else {
                out::count(&format!("L_over_limit_reported_{how}"), 1);
            }
        }
    }
}

pub fn run(a: &ShardArgs) -> Result<(), String> {
    let n = a.n(6000);
    let only: Option<u64> = a
        .replay
        .as_ref()
        .and_then(|p| super::common::replay_scenario(p));
    for idx in 0..n {
        if idx % a.nshards != a.shard {
            continue;
        }
        if let Some(o) = only {
            if o != idx {
                continue;
            }
        }
        out::progress(&format!("scenario {idx}"));
        run_scenario(scenario(a, idx));
    }
    if only.is_none() {
        out::progress("READ table");
        run_scenario(read_table(a));
        out::progress("READ header limit");
        run_scenario(read_limit(a));
    }
    Ok(())
}
