//! C04 — OPERATE actuates only after its own matching, fresh, directly preceding SELECT.
//! Engine E1; oracle: reference justification predicate over the list of application
//! fragments the outstation received (the harness sent them).

use crate::verif::gen;
use crate::verif::out::{self, J};
use crate::verif::refcodec::app as ra;
use crate::verif::rng::Rng;
use crate::verif::sim::outstation::*;
use crate::verif::sim::*;
use crate::verif::util::hex;
use crate::verif::ShardArgs;

const P: &str = "C04";

#[derive(Clone, Debug)]
struct Sel {
    seq: u8,
    objs: Vec<u8>,
    t0: u64,
    /// SELECT response echoed every object with status SUCCESS
    valid: bool,
    /// the SELECT bytes had not been sent before on this connection (so the outstation cannot take it
    /// for a retransmission of an earlier request)
    fresh: bool,
    /// what intervened since (first thing), None = nothing but exact repeats
    intervening: Option<String>,
    repeats: u32,
}

fn objects_of(func: u8, objs: &[u8]) -> Option<Vec<(u8, u8, u32, Vec<u8>)>> {
    let w = ra::walk(func, objs, false);
    if w.error.is_some() {
        return None;
    }
    let mut v = vec![];
    for h in &w.headers {
        if !((h.group == 12 && h.var == 1) || (h.group == 41 && (1..=4).contains(&h.var))) {
            return None;
        }
        if h.qual != ra::Q_PREFIX8 && h.qual != ra::Q_PREFIX16 {
            return None;
        }
        for o in &h.objs {
            v.push((h.group, h.var, o.index.unwrap_or(0), o.bytes.clone()));
        }
    }
    Some(v)
}

/// statuses of every object in a control response
fn statuses(resp: &[u8]) -> Option<Vec<u8>> {
    let fr = ra::Fragment::parse(resp)?;
    let w = ra::walk(ra::F_RESPONSE, &fr.objects, false);
    if w.error.is_some() {
        return None;
    }
    Some(
        w.headers
            .iter()
            .flat_map(|h| h.objs.iter().map(|o| *o.bytes.last().unwrap_or(&0xFF)))
            .collect(),
    )
}

fn small_controls(r: &mut Rng) -> Vec<u8> {
    let n = r.range(1, 2) as usize;
    gen::control_objects(r, n)
}

struct Cx<'a> {
    a: &'a ShardArgs,
    idx: u64,
    cfg: OutCfg,
    hist: Vec<String>,
}

impl Cx<'_> {
    fn viol(&self, rule: &str, sig: &str, why: String) {
        out::violation(
            P,
            &format!("C04.{rule}"),
            sig,
            J::obj(vec![
                ("why", J::s(why)),
                ("config", self.cfg.to_json()),
                ("history", J::arr(self.hist.iter().cloned())),
            ]),
            J::obj(vec![
                ("check", J::s("c04")),
                ("seed", J::U(self.a.seed)),
                ("shard", J::U(self.a.shard)),
                ("nshards", J::U(self.a.nshards)),
                ("scenario", J::U(self.idx)),
            ]),
        );
    }
}

/// one step of a history
#[derive(Clone, Debug, PartialEq)]
pub enum Step {
    Select,
    /// operate with the selected objects (false: mutate one byte)
    Operate(bool),
    DirectOperate,
    Read,
    Confirm,
    Malformed,
    /// a well-formed SELECT whose objects are not controls (refused without touching the control handler);
    /// true: it bears the sequence number of the pending SELECT
    BadSelect(bool),
    /// OPERATE with the objects and sequence number + 1 of the last SELECT that was accepted, whatever came after it
    OperateOld,
    Broadcast,
    Foreign,
    Repeat,
    /// time relative to the select timeout: 0 = small, 1 = T-1, 2 = T, 3 = T+1
    Advance(u8),
    ReconnectClose,
    ReconnectPreempt,
}

async fn run_history(a: &ShardArgs, idx: u64, steps: Vec<Step>, mut r: Rng, exhaustive: bool) {
    let mut cfg = OutCfg::default();
    cfg.select_timeout_ms = *r.pick(&[100u64, 1000, 5000]);
    cfg.sol_tx = *r.pick(&[249usize, 2048]);
    cfg.decode = r.usize_below(108);
    cfg.max_controls = if r.chance(1, 5) {
        Some(r.range(1, 3) as u16)
    } else {
        None
    };
    cfg.unsolicited = !exhaustive && r.chance(1, 5);
    cfg.confirm_timeout_ms = 60_000;
    cfg.discard = r.bool();
    let t_sel = cfg.select_timeout_ms;
    let mut sim = OutSim::start(cfg.clone()).await;
    if r.chance(1, 6) {
        sim.mock.script(|s| {
            s.alt_indices = vec![0, 1, 2, 3, 4, 5, 6, 7];
            s.alt_status = crate::app::control::CommandStatus::NotAuthorized;
        });
    }
    let _ = sim.collect();
    let _ = sim.mock.take();
    let mut cx = Cx {
        a,
        idx,
        cfg: cfg.clone(),
        hist: vec![],
    };
    let mut seq: u8 = r.below(16) as u8;
    let mut sel: Option<Sel> = None;
    let mut last_frag: Option<Vec<u8>> = None;
    let mut last_objs: Vec<u8> = small_controls(&mut r);
    // the last SELECT the outstation accepted: (sequence number, objects)
    let mut last_valid: Option<(u8, Vec<u8>)> = None;
    // request bytes -> response bytes, to recognise echoes of an earlier response (C05 behaviour)
    let mut answered: Vec<(Vec<u8>, Vec<u8>)> = vec![];
    let mut sent_before: Vec<Vec<u8>> = vec![];
    let master = cfg.master_addr;
    let out_addr = cfg.out_addr;

    for step in steps {
        let now = sim.now();
        // what do we send?
        let mut send: Option<(u16, u16, Vec<u8>)> = None; // src, dest, fragment
        let mut label = format!("{step:?}");
        match &step {
            Step::Advance(k) => {
                let base = sel.as_ref().map(|s| s.t0).unwrap_or(now);
                let target = match k {
                    0 => now + r.range(1, 20),
                    1 => base + t_sel - 1,
                    2 => base + t_sel,
                    _ => base + t_sel + 1,
                };
                if target > now {
                    sim.advance(target - now).await;
                }
                // unsolicited retries etc. may have been sent; they are not fragments we *sent*
                let _ = sim.collect();
                let _ = sim.mock.take();
                cx.hist.push(format!("t={} advance to {}", now, sim.now()));
                continue;
            }
            Step::ReconnectClose | Step::ReconnectPreempt => {
                if step == Step::ReconnectClose {
                    sim.reconnect_close().await;
                } else {
                    sim.reconnect_preempt().await;
                }
                let _ = sim.collect();
                let _ = sim.mock.take();
                if let Some(s) = &mut sel {
                    if s.intervening.is_none() {
                        s.intervening = Some(format!(
                            "reconnect-{}",
                            if step == Step::ReconnectClose {
                                "close"
                            } else {
                                "preempt"
                            }
                        ));
                    }
                }
                last_frag = None;
                answered.clear();
                sent_before.clear();
                cx.hist.push(format!("t={} {label}", now));
                continue;
            }
            Step::Repeat => {
                if let Some(f) = &last_frag {
                    send = Some((master, out_addr, f.clone()));
                } else {
                    continue;
                }
            }
            Step::Select => {
                seq = next_seq(&mut r, seq);
                if r.chance(1, 3) || sel.is_none() {
                    last_objs = small_controls(&mut r);
                }
                send = Some((
                    master,
                    out_addr,
                    ra::B::request(ra::F_SELECT, seq).raw(&last_objs).done(),
                ));
            }
            Step::Operate(same) => {
                // sequence: usually select+1, sometimes something else
                let s = match (&sel, r.below(10)) {
                    (Some(s), 0) => s.seq,
                    (Some(s), 1) => (s.seq + 2) & 0x0F,
                    (Some(s), 2) => (s.seq + 15) & 0x0F,
                    (Some(s), _) => (s.seq + 1) & 0x0F,
                    (None, _) => next_seq(&mut r, seq),
                };
                seq = s;
                let mut objs = sel
                    .as_ref()
                    .map(|s| s.objs.clone())
                    .unwrap_or_else(|| last_objs.clone());
                if !*same && !objs.is_empty() {
                    // one differing byte (value/index/count — keep it parseable: flip in an object body)
                    let k = objs.len() - 2;
                    objs[k] ^= 0x01;
                    label = "Operate(one byte differs)".into();
                }
                send = Some((
                    master,
                    out_addr,
                    ra::B::request(ra::F_OPERATE, seq).raw(&objs).done(),
                ));
            }
            Step::BadSelect(same) => {
                seq = match (&sel, *same) {
                    (Some(s), true) => s.seq,
                    _ => next_seq(&mut r, seq),
                };
                let b = ra::B::request(ra::F_SELECT, seq);
                let f = match r.below(3) {
                    0 => b.all(60, 1).done(),
                    1 => b.range8(30, 1, 0, 1, &[]).done(),
                    _ => b.all(1, 0).done(),
                };
                send = Some((master, out_addr, f));
            }
            Step::OperateOld => {
                let (s0, objs) = match &last_valid {
                    Some((s0, o)) => (*s0, o.clone()),
                    None => (seq, last_objs.clone()),
                };
                seq = (s0 + 1) & 0x0F;
                send = Some((
                    master,
                    out_addr,
                    ra::B::request(ra::F_OPERATE, seq).raw(&objs).done(),
                ));
            }
            Step::DirectOperate => {
                seq = next_seq(&mut r, seq);
                let f = if r.bool() {
                    ra::F_DIRECT_OPERATE
                } else {
                    ra::F_DIRECT_OPERATE_NR
                };
                send = Some((
                    master,
                    out_addr,
                    ra::B::request(f, seq).raw(&last_objs).done(),
                ));
            }
            Step::Read => {
                seq = next_seq(&mut r, seq);
                send = Some((
                    master,
                    out_addr,
                    ra::B::request(ra::F_READ, seq).all(60, 1).done(),
                ));
            }
            Step::Confirm => {
                send = Some((
                    master,
                    out_addr,
                    ra::B::confirm(r.below(16) as u8, r.bool()).done(),
                ));
            }
            Step::Malformed => {
                seq = next_seq(&mut r, seq);
                let f = match r.below(3) {
                    0 => vec![0xC0 | seq, 0x70],
                    1 => ra::B::request(ra::F_SELECT, seq)
                        .raw(&[12, 1, 0x17, 2, 0])
                        .done(),
                    _ => vec![0xC0 | seq],
                };
                send = Some((master, out_addr, f));
            }
            Step::Broadcast => {
                let f = ra::B::request(ra::F_DIRECT_OPERATE_NR, r.below(16) as u8)
                    .raw(&last_objs)
                    .done();
                send = Some((master, 0xFFFD + r.below(3) as u16, f));
            }
            Step::Foreign => {
                let f = ra::B::request(ra::F_READ, r.below(16) as u8)
                    .all(60, 1)
                    .done();
                send = Some((7, out_addr, f));
            }
        }
        let (src, dest, frag) = send.unwrap();
        let is_repeat =
            last_frag.as_deref() == Some(frag.as_slice()) && src == master && dest == out_addr;
        let func = if frag.len() >= 2 { frag[1] } else { 0xFF };
        let fseq = frag[0] & 0x0F;
        let wellformed_unicast =
            src == master && dest == out_addr && frag.len() >= 2 && frag[0] & 0xF0 == 0xC0;
        cx.hist.push(format!(
            "t={} {label} seq={} {}",
            now,
            fseq,
            hex(&frag[..frag.len().min(48)])
        ));

        // reference: is an OPERATE justified?
        let mut verdict: Option<(bool, String, bool)> = None; // (justified, reason, strict)
        if func == ra::F_OPERATE && wellformed_unicast && !is_repeat {
            let objs = &frag[2..];
            let (j, why) = match &sel {
                None => (false, "no-select".to_string()),
                Some(s) => {
                    if let Some(w) = &s.intervening {
                        (false, format!("intervening:{w}"))
                    } else if !s.valid {
                        (false, "select-not-successful".into())
                    } else if s.objs != objs {
                        (false, "objects-differ".into())
                    } else if fseq != (s.seq + 1) & 0x0F {
                        (false, format!("seq+{}", (16 + fseq - s.seq) & 0x0F))
                    } else if now - s.t0 > t_sel {
                        (false, "select-timeout".into())
                    } else {
                        (true, "justified".into())
                    }
                }
            };
            let strict = sel
                .as_ref()
                .map(|s| s.repeats == 0 && s.fresh)
                .unwrap_or(true);
            verdict = Some((j, why, strict));
        }

        sim.send_from(src, dest, &frag, &[]);
        settle().await;
        let rx = sim.collect();
        let evs = sim.mock.take();
        let resp: Option<Vec<u8>> = rx
            .iter()
            .filter_map(|x| x.fragment())
            .find(|f| f.len() >= 2 && f[1] == ra::F_RESPONSE && f[0] & 0x0F == fseq)
            .map(|f| f.to_vec());

        if let Some((justified, why, strict)) = verdict {
            out::eval(1);
            let want = objects_of(ra::F_OPERATE, &frag[2..]).unwrap_or_default();
            let ops: Vec<(u8, u8, u32, Vec<u8>)> = evs
                .iter()
                .filter_map(|(_, e)| match e {
                    Ev::Operate(g, v, i, b, 0) => Some((*g, *v, *i as u32, b.clone())),
                    _ => None,
                })
                .collect();
            let unsol_state = if cfg.unsolicited { "unsol" } else { "polled" };
            out::distinct(&format!(
                "{why}/{unsol_state}/repeats{}",
                sel.as_ref().map(|s| s.repeats.min(2)).unwrap_or(0)
            ));
            if justified && strict {
                if ops != want {
                    cx.viol("converse", &format!("not-executed-once|{unsol_state}"), format!("SELECT directly followed by its matching OPERATE: handler saw {} operate calls for {} objects", ops.len(), want.len()));
                } else {
                    out::count("justified_executed_once", 1);
                }
            } else if justified {
                if !(ops.is_empty() || ops == want) {
                    cx.viol(
                        "partial",
                        "after-repeat",
                        format!("{} of {} objects operated", ops.len(), want.len()),
                    );
                } else if ops.is_empty() {
                    out::count("justified_after_repeat_rejected", 1);
                } else {
                    out::count("justified_after_repeat_executed", 1);
                }
            } else {
                if !ops.is_empty() {
                    cx.viol(
                        "unjustified_operate",
                        &why,
                        format!(
                            "OPERATE reached the control handler ({} calls) although: {why}",
                            ops.len()
                        ),
                    );
                } else {
                    out::count("unjustified_rejected", 1);
                }
                let echo = resp
                    .as_ref()
                    .map(|rp| {
                        answered.iter().any(|(q, a)| {
                            q == &frag
                                && a.len() == rp.len()
                                && a.len() >= 4
                                && (a[0] | ra::CON) == (rp[0] | ra::CON)
                                && a[1] == rp[1]
                                && a[4..] == rp[4..]
                        })
                    })
                    .unwrap_or(false);
                if echo {
                    // byte-identical request answered with the earlier response (IIN octets may be refreshed; C05 judges that): a
                    // retransmission answered from memory, nothing was actuated (checked above)
                    out::count("echo_of_previous_response", 1);
                } else if let Some(rp) = &resp {
                    match statuses(rp) {
                        Some(st) => {
                            if st.iter().any(|s| *s == 0) {
                                cx.viol(
                                    "unjustified_success",
                                    &why,
                                    format!(
                                        "unjustified OPERATE answered with SUCCESS status ({why})"
                                    ),
                                );
                            }
                        }
                        None => {}
                    }
                }
            }
        }

        if let Some(rp) = &resp {
            answered.push((frag.clone(), rp.clone()));
        }
        // update the reference state
        if is_repeat {
            if let Some(s) = &mut sel {
                if s.intervening.is_none() && func == ra::F_SELECT {
                    s.repeats += 1;
                    out::count("select_repeats", 1);
                } else if s.intervening.is_none() {
                    s.intervening = Some("repeat-of-other".into());
                }
            }
        } else if func == ra::F_SELECT && wellformed_unicast {
            let objs = frag[2..].to_vec();
            let want = objects_of(ra::F_SELECT, &objs);
            let mut valid = false;
            if let (Some(want), Some(rp)) = (&want, &resp) {
                if let Some(fr) = ra::Fragment::parse(rp) {
                    let got = objects_of(ra::F_RESPONSE, &fr.objects);
                    valid = got.as_ref() == Some(want)
                        && fr.iin.map(|i| i.1 & ra::IIN2_ERRORS == 0).unwrap_or(false);
                }
            }
            if valid {
                last_valid = Some((fseq, objs.clone()));
                out::count("selects_successful", 1);
            } else {
                out::count("selects_failed", 1);
            }
            sel = Some(Sel {
                seq: fseq,
                objs,
                t0: now,
                valid,
                fresh: !sent_before.contains(&frag),
                intervening: None,
                repeats: 0,
            });
        } else if let Some(s) = &mut sel {
            if s.intervening.is_none() {
                s.intervening = Some(match &step {
                    Step::Operate(_) | Step::OperateOld => "operate".to_string(),
                    other => format!("{other:?}").to_lowercase(),
                });
            }
        }
        sent_before.push(frag.clone());
        if src == master && dest == out_addr {
            last_frag = Some(frag.clone());
        } else {
            last_frag = None;
        }
    }
    if a.replay.is_some() {
        for l in crate::verif::trace::tail(120) {
            eprintln!("TRACE {l}");
        }
        for h in &cx.hist {
            eprintln!("HIST {h}");
        }
        for e in sim.mock.all() {
            eprintln!("EV {e:?}");
        }
    }
    for p in crate::verif::util::take_panics() {
        cx.viol(
            "panic",
            &crate::verif::util::norm_location(&p.location),
            format!("panic {} at {}", p.message, p.location),
        );
    }
    if out::sample_count() < 2 {
        out::sample(J::obj(vec![("history", J::arr(cx.hist.iter().cloned()))]));
    }
}

fn next_seq(r: &mut Rng, seq: u8) -> u8 {
    match r.below(12) {
        0 => seq,
        1 => (seq + 2) & 0x0F,
        _ => (seq + 1) & 0x0F,
    }
}

fn random_history(r: &mut Rng) -> Vec<Step> {
    let n = r.range(2, 10);
    let mut v = vec![];
    for _ in 0..n {
        if r.chance(1, 10) {
            v.push(if r.bool() {
                Step::BadSelect(r.bool())
            } else {
                Step::OperateOld
            });
            continue;
        }
        let s = match r.weighted(&[24, 30, 4, 4, 4, 4, 4, 4, 8, 10, 3, 3]) {
            0 => Step::Select,
            1 => Step::Operate(!r.chance(1, 8)),
            2 => Step::DirectOperate,
            3 => Step::Read,
            4 => Step::Confirm,
            5 => Step::Malformed,
            6 => Step::Broadcast,
            7 => Step::Foreign,
            8 => Step::Repeat,
            9 => Step::Advance(r.below(4) as u8),
            10 => Step::ReconnectClose,
            _ => Step::ReconnectPreempt,
        };
        v.push(s);
    }
    v
}

/// stale select re-matched after the sequence number wrapped: SELECT, 15 other requests, OPERATE
fn wrap_history(r: &mut Rng) -> Vec<Step> {
    let mut v = vec![Step::Select];
    for _ in 0..r.range(14, 16) {
        v.push(if r.bool() {
            Step::Read
        } else {
            Step::DirectOperate
        });
    }
    v.push(Step::Operate(true));
    v
}

const ALPHABET: [Step; 14] = [
    Step::BadSelect(true),
    Step::BadSelect(false),
    Step::Select,
    Step::Operate(true),
    Step::Operate(false),
    Step::Read,
    Step::Confirm,
    Step::Malformed,
    Step::Broadcast,
    Step::Foreign,
    Step::Repeat,
    Step::Advance(3),
    Step::ReconnectClose,
    Step::ReconnectPreempt,
];

pub fn run(a: &ShardArgs) -> Result<(), String> {
    let only: Option<u64> = a
        .replay
        .as_ref()
        .and_then(|p| super::common::replay_scenario(p));
    let n = a.n(12_000);
    // systematic part: all histories SELECT x y OPERATE and SELECT x OPERATE over the alphabet (12 + 144)
    // plus all length<=3 histories in thorough runs
    let mut systematic: Vec<Vec<Step>> = vec![vec![Step::Select, Step::Operate(true)]];
    for x in &ALPHABET {
        systematic.push(vec![Step::Select, x.clone(), Step::Operate(true)]);
        for y in &ALPHABET {
            systematic.push(vec![
                Step::Select,
                x.clone(),
                y.clone(),
                Step::Operate(true),
            ]);
            systematic.push(vec![Step::Select, x.clone(), y.clone(), Step::OperateOld]);
            if a.thorough() {
                for z in &ALPHABET {
                    systematic.push(vec![x.clone(), y.clone(), z.clone(), Step::Operate(true)]);
                }
            }
        }
    }
    let nsys = systematic.len() as u64;
    for idx in 0..(n + nsys) {
        if idx % a.nshards != a.shard {
            continue;
        }
        if let Some(o) = only {
            if o != idx {
                continue;
            }
        }
        out::progress(&format!("scenario {idx}"));
        let mut r = a.rng(&format!("c04/{idx}"));
        let (steps, exhaustive) = if idx < nsys {
            out::count("systematic_histories", 1);
            (systematic[idx as usize].clone(), true)
        } else if r.chance(1, 25) {
            (wrap_history(&mut r), false)
        } else {
            (random_history(&mut r), false)
        };
        run_scenario(run_history(a, idx, steps, r, exhaustive));
    }
    Ok(())
}
