//! Event ledger driver shared by C03 (no event lost / invented / released early)
//! and C13 (IIN bits tell the truth).  Engine E1.
//!
//! Every update made through the public database API is recorded with the
//! returned `UpdateInfo`; every fragment the outstation transmits is decoded with
//! the reference codec and its event objects are attributed to ledger ids; every
//! `event_cleared` callback is checked against what the harness knows was carried
//! by the fragment its CONFIRM matched.

use crate::app::measurement::*;
use crate::outstation::database::*;
use crate::outstation::BufferState;
use crate::verif::out::{self, J};
use crate::verif::refcodec::app as ra;
use crate::verif::refcodec::app::{Meas, PType, Val};
use crate::verif::rng::Rng;
use crate::verif::sim::outstation::*;
use crate::verif::sim::*;
use crate::verif::util::hex;
use crate::verif::ShardArgs;

#[derive(Clone, Debug, PartialEq)]
pub enum UVal {
    Bin(bool),
    Dbl(u8),
    Num(u32),
    Ana(f64),
    Oct(Vec<u8>),
}

#[derive(Clone, Copy, Debug, PartialEq, Eq)]
pub enum St {
    Held,
    Discarded,
    Released,
}

#[derive(Clone, Debug)]
pub struct LEv {
    pub id: u64,
    pub t: usize, // type slot 0..8
    pub index: u16,
    pub class: u8,
    pub val: UVal,
    pub flags: u8,
    pub time: u64,
    pub st: St,
    /// fragment serials that carried it
    pub carried: Vec<usize>,
}

pub const TYPES: [PType; 8] = [
    PType::Binary,
    PType::DoubleBit,
    PType::BinaryOutputStatus,
    PType::Counter,
    PType::FrozenCounter,
    PType::Analog,
    PType::AnalogOutputStatus,
    PType::OctetString,
];
/// event group per type slot
pub const EGROUP: [u8; 8] = [2, 4, 11, 22, 23, 32, 42, 111];
pub const SGROUP: [u8; 8] = [1, 3, 10, 20, 21, 30, 40, 110];

fn slot(p: PType) -> Option<usize> {
    TYPES.iter().position(|x| *x == p)
}

#[derive(Clone, Debug)]
pub struct Pt {
    pub t: usize,
    pub index: u16,
    pub class: Option<u8>,
    /// seed of the generator that picks the point's variations (the same ones when the point is defined again)
    pub vseed: u64,
}

fn class_of(c: u8) -> EventClass {
    match c {
        1 => EventClass::Class1,
        2 => EventClass::Class2,
        _ => EventClass::Class3,
    }
}

fn add_point(db: &mut Database, r: &mut Rng, t: usize, index: u16, class: Option<u8>) {
    let c = class.map(class_of);
    match t {
        0 => {
            let ev = *r.pick(&[
                EventBinaryInputVariation::Group2Var1,
                EventBinaryInputVariation::Group2Var2,
                EventBinaryInputVariation::Group2Var3,
            ]);
            db.add(
                index,
                c,
                BinaryInputConfig::new(
                    *r.pick(&[
                        StaticBinaryInputVariation::Group1Var1,
                        StaticBinaryInputVariation::Group1Var2,
                    ]),
                    ev,
                ),
            );
        }
        1 => {
            let ev = *r.pick(&[
                EventDoubleBitBinaryInputVariation::Group4Var1,
                EventDoubleBitBinaryInputVariation::Group4Var2,
                EventDoubleBitBinaryInputVariation::Group4Var3,
            ]);
            db.add(
                index,
                c,
                DoubleBitBinaryInputConfig::new(
                    StaticDoubleBitBinaryInputVariation::Group3Var2,
                    ev,
                ),
            );
        }
        2 => {
            let ev = *r.pick(&[
                EventBinaryOutputStatusVariation::Group11Var1,
                EventBinaryOutputStatusVariation::Group11Var2,
            ]);
            db.add(
                index,
                c,
                BinaryOutputStatusConfig::new(StaticBinaryOutputStatusVariation::Group10Var2, ev),
            );
        }
        3 => {
            let ev = *r.pick(&[
                EventCounterVariation::Group22Var1,
                EventCounterVariation::Group22Var2,
                EventCounterVariation::Group22Var5,
                EventCounterVariation::Group22Var6,
            ]);
            db.add(
                index,
                c,
                CounterConfig::new(StaticCounterVariation::Group20Var1, ev, 0),
            );
        }
        4 => {
            let ev = *r.pick(&[
                EventFrozenCounterVariation::Group23Var1,
                EventFrozenCounterVariation::Group23Var2,
                EventFrozenCounterVariation::Group23Var5,
                EventFrozenCounterVariation::Group23Var6,
            ]);
            db.add(
                index,
                c,
                FrozenCounterConfig::new(StaticFrozenCounterVariation::Group21Var1, ev, 0),
            );
        }
        5 => {
            let ev = *r.pick(&[
                EventAnalogInputVariation::Group32Var1,
                EventAnalogInputVariation::Group32Var2,
                EventAnalogInputVariation::Group32Var3,
                EventAnalogInputVariation::Group32Var4,
                EventAnalogInputVariation::Group32Var5,
                EventAnalogInputVariation::Group32Var6,
                EventAnalogInputVariation::Group32Var7,
                EventAnalogInputVariation::Group32Var8,
            ]);
            db.add(
                index,
                c,
                AnalogInputConfig::new(StaticAnalogInputVariation::Group30Var1, ev, 0.0),
            );
        }
        6 => {
            let ev = *r.pick(&[
                EventAnalogOutputStatusVariation::Group42Var1,
                EventAnalogOutputStatusVariation::Group42Var2,
                EventAnalogOutputStatusVariation::Group42Var3,
                EventAnalogOutputStatusVariation::Group42Var4,
                EventAnalogOutputStatusVariation::Group42Var5,
                EventAnalogOutputStatusVariation::Group42Var6,
                EventAnalogOutputStatusVariation::Group42Var7,
                EventAnalogOutputStatusVariation::Group42Var8,
            ]);
            db.add(
                index,
                c,
                AnalogOutputStatusConfig::new(
                    StaticAnalogOutputStatusVariation::Group40Var1,
                    ev,
                    0.0,
                ),
            );
        }
        _ => {
            db.add(index, c, OctetStringConfig);
        }
    }
}

#[derive(Clone, Copy, Debug, PartialEq)]
pub enum Bc {
    None,
    /// received, not yet carried by a response
    Unreported(u16),
    /// confirm-mandatory broadcast carried by the response (seq, uns) and awaiting a confirm
    Reported(u8, bool),
    /// a non-matching CONFIRM was received after it was reported: the oracle is silent
    Uncertain,
}

#[derive(Clone, Debug)]
pub struct Carried {
    pub serial: usize,
    pub seq: u8,
    pub ids: Vec<u64>,
    pub fin: bool,
    pub bytes: Vec<u8>,
    pub t_ms: u64,
}

pub struct World<'a> {
    pub a: &'a ShardArgs,
    pub check: &'static str,
    pub idx: u64,
    pub cfg: OutCfg,
    pub sim: OutSim,
    pub r: Rng,
    pub pts: Vec<Pt>,
    pub ledger: Vec<LEv>,
    pub hist: Vec<String>,
    pub tcount: u64,
    pub seq: u8,
    pub serial: usize,
    /// solicited response awaiting confirmation (as far as the harness knows)
    pub out_sol: Option<Carried>,
    pub out_unsol: Option<Carried>,
    /// model of IIN2.3
    pub overflow: bool,
    pub restart: bool,
    pub enabled: [bool; 3],
    pub null_confirmed: bool,
    /// model of the broadcast indication (IIN1.0)
    pub bc: Bc,
    /// broadcast destination addresses sent and not yet seen processed (broadcast_received callback)
    pub bc_sent: std::collections::VecDeque<u16>,
    /// per broadcast sent: the ENABLE / DISABLE_UNSOLICITED effect it has when processed
    pub bc_effects: std::collections::VecDeque<Option<(bool, [bool; 3])>>,
    pub app_iin: (bool, bool, bool, bool),
    /// expected remaining selection (ids) of the solicited series in progress
    pub series_expect: Option<Vec<u64>>,
    pub last_unsol_seq: Option<u8>,
    /// a DISABLE_UNSOLICITED was sent: it cancels the unsolicited series outstanding when it is processed,
    /// i.e. right after its own response has been built
    pub cancel_unsol_after_next_sol: bool,
}

impl<'a> World<'a> {
    pub fn viol(&self, prop: &str, rule: &str, sig: &str, why: String, extra: J) {
        out::violation(
            prop,
            &format!("{prop}.{rule}"),
            sig,
            J::obj(vec![
                ("why", J::s(why)),
                ("extra", extra),
                ("config", self.cfg.to_json()),
                (
                    "history",
                    J::arr(self.hist.iter().rev().take(40).rev().cloned()),
                ),
                (
                    "held",
                    J::arr(
                        self.ledger
                            .iter()
                            .filter(|e| e.st == St::Held)
                            .map(|e| format!("id{} t{} i{} c{}", e.id, e.t, e.index, e.class)),
                    ),
                ),
            ]),
            J::obj(vec![
                ("check", J::s(self.check)),
                ("seed", J::U(self.a.seed)),
                ("shard", J::U(self.a.shard)),
                ("nshards", J::U(self.a.nshards)),
                ("scenario", J::U(self.idx)),
            ]),
        );
    }

    pub fn held(&self) -> impl Iterator<Item = &LEv> {
        self.ledger.iter().filter(|e| e.st == St::Held)
    }

    fn held_count_type(&self, t: usize) -> usize {
        self.held().filter(|e| e.t == t).count()
    }

    /// take a point out of the database and define it again with the same variations: the events it has in the buffer
    /// are unaffected, later updates make new ones. The class changes only when the point holds no event (objects of
    /// variations without a time stamp are attributed to events by point, value and flags; two held events of one point
    /// in different classes could not be told apart)
    pub fn remove_and_add(&mut self, pt_i: usize) {
        let pt = self.pts[pt_i].clone();
        let holds = self.held().any(|e| e.t == pt.t && e.index == pt.index);
        let class = if !holds && self.r.chance(1, 2) {
            *self.r.pick(&[None, Some(1u8), Some(2), Some(3)])
        } else {
            pt.class
        };
        let removed = self.sim.db(|db| {
            let x = super::c11::remove(db, pt.t, pt.index);
            add_point(db, &mut Rng::new(pt.vseed), pt.t, pt.index, class);
            x
        });
        if !removed {
            self.viol("C03", "remove_refused", &format!("t{}", pt.t), format!("removing the existing point {pt:?} returned false"), J::Null);
        }
        self.pts[pt_i].class = class;
        self.hist.push(format!("t={} point {pt:?} removed and added again with class {class:?}", self.sim.now()));
        out::count("points_removed_and_added_again", 1);
        if holds {
            out::count("points_removed_while_holding_events", 1);
        }
    }

    /// one database update with a unique timestamp; records the ledger entry
    pub fn update(&mut self, pt_i: usize) {
        let pt = self.pts[pt_i].clone();
        self.tcount += 1 + self.r.below(3);
        // timestamps are unique but not monotonic: process time stamps may go backwards, jump by more than
        // 65535 ms (relative-time variations need a new common time header) or lie in the past
        let mut time = self.tcount;
        match self.r.below(8) {
            0 => time = self.tcount.saturating_sub(self.r.range(1, 70_000) * 7 + 3),
            1 => {
                self.tcount += self.r.range(65_000, 66_000);
                time = self.tcount;
            }
            _ => {}
        }
        while self.ledger.iter().any(|e| e.time == time) {
            time += 1_000_003;
        }
        let flags: u8 = 0x01 | (self.r.u8() & 0x1E & if self.r.bool() { 0xFF } else { 0 });
        let opt = UpdateOptions::new(true, EventMode::Force);
        let tm = if self.r.chance(1, 6) {
            Time::unsynchronized(time)
        } else {
            Time::synchronized(time)
        };
        let (val, info) = match pt.t {
            0 => {
                let v = self.r.bool();
                (
                    UVal::Bin(v),
                    self.sim.db(|db| {
                        db.update2(pt.index, &BinaryInput::new(v, Flags::new(flags), tm), opt)
                    }),
                )
            }
            1 => {
                let v = self.r.below(4) as u8;
                let d = [
                    DoubleBit::Intermediate,
                    DoubleBit::DeterminedOff,
                    DoubleBit::DeterminedOn,
                    DoubleBit::Indeterminate,
                ][v as usize];
                (
                    UVal::Dbl(v),
                    self.sim.db(|db| {
                        db.update2(
                            pt.index,
                            &DoubleBitBinaryInput::new(d, Flags::new(flags), tm),
                            opt,
                        )
                    }),
                )
            }
            2 => {
                let v = self.r.bool();
                (
                    UVal::Bin(v),
                    self.sim.db(|db| {
                        db.update2(
                            pt.index,
                            &BinaryOutputStatus::new(v, Flags::new(flags), tm),
                            opt,
                        )
                    }),
                )
            }
            3 => {
                let v = self.r.u32() % 60000;
                (
                    UVal::Num(v),
                    self.sim.db(|db| {
                        db.update2(pt.index, &Counter::new(v, Flags::new(flags), tm), opt)
                    }),
                )
            }
            4 => {
                let v = self.r.u32() % 60000;
                (
                    UVal::Num(v),
                    self.sim.db(|db| {
                        db.update2(pt.index, &FrozenCounter::new(v, Flags::new(flags), tm), opt)
                    }),
                )
            }
            5 => {
                let v = (self.r.u32() % 30000) as f64;
                (
                    UVal::Ana(v),
                    self.sim.db(|db| {
                        db.update2(pt.index, &AnalogInput::new(v, Flags::new(flags), tm), opt)
                    }),
                )
            }
            6 => {
                let v = (self.r.u32() % 30000) as f64;
                (
                    UVal::Ana(v),
                    self.sim.db(|db| {
                        db.update2(
                            pt.index,
                            &AnalogOutputStatus::new(v, Flags::new(flags), tm),
                            opt,
                        )
                    }),
                )
            }
            _ => {
                let n = self.r.range(1, 9) as usize;
                let mut v = self.r.bytes(n);
                // make octet strings unique: embed the time
                v[0] = (time & 0xFF) as u8;
                let o = OctetString::new(&v).unwrap();
                (
                    UVal::Oct(v),
                    self.sim.db(|db| db.update2(pt.index, &o, opt)),
                )
            }
        };
        out::count("updates", 1);
        let max = self.cfg.event_cfg[pt.t];
        let mut push = |w: &mut Self, id: u64| {
            w.ledger.push(LEv {
                id,
                t: pt.t,
                index: pt.index,
                class: pt.class.unwrap_or(0),
                val: val.clone(),
                flags,
                time,
                st: St::Held,
                carried: vec![],
            });
        };
        match info {
            UpdateInfo::NoPoint => self.viol(
                "C03",
                "update_nopoint",
                "nopoint",
                format!("update of an existing point {pt:?} returned NoPoint"),
                J::Null,
            ),
            UpdateInfo::NoEvent => {
                if pt.class.is_some() && max > 0 {
                    self.viol(
                        "C03",
                        "R0_event_not_recorded",
                        &format!("t{}", pt.t),
                        format!("forced update of {pt:?} with event class produced no event"),
                        J::Null,
                    );
                }
                self.hist.push(format!("update {pt:?} -> NoEvent"));
            }
            UpdateInfo::Created(id) => {
                if pt.class.is_none() || max == 0 {
                    self.viol(
                        "C03",
                        "R0_event_invented",
                        &format!("t{}", pt.t),
                        format!(
                            "update of {pt:?} (class {:?}, max {max}) created event {id}",
                            pt.class
                        ),
                        J::Null,
                    );
                }
                self.check_new_id(id);
                push(self, id);
                self.hist.push(format!(
                    "update t{} i{} c{:?} time={time} -> Created({id})",
                    pt.t, pt.index, pt.class
                ));
                out::count("events_created", 1);
            }
            UpdateInfo::Overflow { created, discarded } => {
                self.check_new_id(created);
                match self.ledger.iter_mut().find(|e| e.id == discarded) {
                    Some(e) if e.st == St::Held => {
                        let oldest_of_type = e.t == pt.t;
                        let was_carried = !e.carried.is_empty();
                        e.st = St::Discarded;
                        if !oldest_of_type {
                            self.viol("C03", "R0_discard_wrong_type", "type", format!("overflow of type {} discarded event {discarded} of another type", pt.t), J::Null);
                        }
                        if self
                            .ledger
                            .iter()
                            .any(|x| x.st == St::Held && x.t == pt.t && x.id < discarded)
                        {
                            self.viol("C03", "R0_discard_not_oldest", "order", format!("overflow discarded event {discarded} although an older one of the type is held"), J::Null);
                        }
                        if was_carried {
                            out::count("overflow_discarded_carried_event", 1);
                        }
                    }
                    _ => self.viol(
                        "C03",
                        "R2_discard_unknown",
                        "unknown",
                        format!("overflow reports discarding event {discarded} which is not held"),
                        J::Null,
                    ),
                }
                push(self, created);
                self.overflow = true;
                self.hist.push(format!("update t{} i{} c{:?} time={time} -> Overflow(created {created}, discarded {discarded})", pt.t, pt.index, pt.class));
                out::count("events_created", 1);
                out::count("overflows", 1);
                // an event discarded while part of an outstanding response is no longer expected
                for c in [&mut self.out_sol, &mut self.out_unsol]
                    .into_iter()
                    .flatten()
                {
                    c.ids.retain(|x| *x != discarded);
                }
                if let Some(s) = &mut self.series_expect {
                    s.retain(|x| *x != discarded);
                }
            }
        }
        if max > 0 && self.held_count_type(pt.t) > max as usize {
            self.viol(
                "C03",
                "R3_over_capacity",
                &format!("t{}", pt.t),
                format!(
                    "{} events of type {} held, capacity {max}",
                    self.held_count_type(pt.t),
                    pt.t
                ),
                J::Null,
            );
        }
    }

    fn check_new_id(&self, id: u64) {
        if self.ledger.iter().any(|e| e.id == id) {
            self.viol(
                "C03",
                "R2_duplicate_id",
                "dup",
                format!("event id {id} issued twice"),
                J::Null,
            );
        }
    }

    /// attribute the event objects of a fragment to ledger ids (R4 fidelity + order)
    pub fn attribute(&mut self, frag: &[u8], what: &str) -> Vec<u64> {
        let fr = match ra::Fragment::parse(frag) {
            Some(f) => f,
            None => return vec![],
        };
        let (meas, _ctos) = match ra::decode_response_measurements(&fr.objects) {
            Ok(x) => x,
            Err(e) => {
                self.viol(
                    "C03",
                    "R4_undecodable",
                    what,
                    format!("transmitted fragment does not decode: {e:?}"),
                    J::hex(frag),
                );
                return vec![];
            }
        };
        let mut ids: Vec<u64> = vec![];
        for m in meas.iter().filter(|m| m.is_event) {
            let t = match slot(m.ptype) {
                Some(t) => t,
                None => continue,
            };
            let cand = self.ledger.iter().find(|e| {
                e.st == St::Held
                    && e.t == t
                    && e.index as u32 == m.index
                    && !ids.contains(&e.id)
                    && meas_matches(e, m)
            });
            match cand {
                Some(e) => ids.push(e.id),
                None => {
                    // is there a held event for that point at all? then fidelity, else invention
                    let same_point = self
                        .ledger
                        .iter()
                        .any(|e| e.st == St::Held && e.t == t && e.index as u32 == m.index);
                    let released = self.ledger.iter().any(|e| {
                        e.st != St::Held
                            && e.t == t
                            && e.index as u32 == m.index
                            && meas_matches(e, m)
                    });
                    let rule = if released {
                        "R2_resurrected"
                    } else if same_point {
                        "R4_fidelity"
                    } else {
                        "R4_invented"
                    };
                    self.viol(
                        "C03",
                        rule,
                        &format!("g{}v{}|{what}", m.group, m.var),
                        format!("event object {m:?} matches no held event"),
                        J::hex(&frag[..frag.len().min(120)]),
                    );
                }
            }
        }
        // oldest first
        if ids.windows(2).any(|w| w[0] > w[1]) {
            self.viol(
                "C03",
                "R4_order",
                what,
                format!("events not reported oldest first: ids {ids:?}"),
                J::Null,
            );
        } else if ids.len() >= 2 {
            out::count("R4_order_ok", 1);
        }
        out::count("event_objects_attributed", ids.len() as u64);
        if ids.len() > 255 {
            out::count("fragments_with_more_than_255_events_attributed", 1);
        }
        ids
    }

    /// reference selection for a READ: headers = (kind: 'c'|'t', class mask or type slot, limit)
    pub fn reference_selection(&self, headers: &[(char, u8, Option<usize>)]) -> Vec<u64> {
        let mut selected: Vec<u64> = vec![];
        for (kind, x, limit) in headers {
            let mut n = 0;
            for e in self.held() {
                if selected.contains(&e.id) {
                    continue;
                }
                let m = match kind {
                    'c' => e.class == *x,
                    _ => e.t == *x as usize,
                };
                if m {
                    if let Some(l) = limit {
                        if n >= *l {
                            break;
                        }
                    }
                    selected.push(e.id);
                    n += 1;
                }
            }
        }
        selected.sort();
        selected
    }

    /// C13: check the IIN octets of a freshly built response carrying `ids`
    pub fn check_iin(&mut self, frag: &[u8], ids: &[u64], what: &str) {
        if frag.len() < 4 {
            return;
        }
        let (i1, i2) = (frag[2], frag[3]);
        out::count("iin_checked", 1);
        // events of class k available and not part of a response awaiting confirmation
        let mut outstanding: Vec<u64> = ids.to_vec();
        if let Some(c) = &self.out_sol {
            outstanding.extend(c.ids.iter());
        }
        if let Some(c) = &self.out_unsol {
            outstanding.extend(c.ids.iter());
        }
        for k in 1..=3u8 {
            let want = self
                .held()
                .any(|e| e.class == k && !outstanding.contains(&e.id));
            let bit = [ra::IIN1_CLASS1, ra::IIN1_CLASS2, ra::IIN1_CLASS3][k as usize - 1];
            let got = i1 & bit != 0;
            if want != got {
                self.viol(
                    "C13",
                    "class_bit",
                    &format!(
                        "class{}|{}|{what}",
                        k,
                        if got {
                            "set-but-none"
                        } else {
                            "clear-but-available"
                        }
                    ),
                    format!("IIN1 class {k} bit is {got}, expected {want}"),
                    J::hex(&frag[..frag.len().min(40)]),
                );
            } else {
                out::count("class_bit_ok", 1);
            }
        }
        let got = i2 & ra::IIN2_OVERFLOW != 0;
        if got != self.overflow {
            self.viol(
                "C13",
                "overflow_bit",
                &format!("{}|{what}", if got { "set" } else { "clear" }),
                format!("IIN2.3 overflow is {got}, expected {}", self.overflow),
                J::hex(&frag[..frag.len().min(40)]),
            );
        } else {
            out::count("overflow_bit_ok", 1);
            if got {
                out::count("overflow_bit_set_ok", 1);
            }
        }
        let got = i1 & ra::IIN1_RESTART != 0;
        if got != self.restart {
            self.viol(
                "C13",
                "restart_bit",
                &format!("{}|{what}", if got { "set" } else { "clear" }),
                format!("IIN1.7 restart is {got}, expected {}", self.restart),
                J::Null,
            );
        } else {
            out::count("restart_bit_ok", 1);
        }
        let (nt, lc, dt, cc) = self.app_iin;
        for (name, bit, oct, want) in [
            ("need_time", ra::IIN1_NEED_TIME, i1, nt),
            ("local_control", ra::IIN1_LOCAL_CONTROL, i1, lc),
            ("device_trouble", ra::IIN1_DEVICE_TROUBLE, i1, dt),
            ("config_corrupt", ra::IIN2_CONFIG_CORRUPT, i2, cc),
        ] {
            let got = oct & bit != 0;
            if got != want {
                self.viol(
                    "C13",
                    "app_bit",
                    name,
                    format!("{name} is {got}, application says {want}"),
                    J::Null,
                );
            } else if want {
                out::count("app_bit_set_ok", 1);
            }
        }
        // broadcast
        let got = i1 & ra::IIN1_BROADCAST != 0;
        let uns = frag[1] == ra::F_UNSOL_RESPONSE;
        match self.bc {
            Bc::None => {
                if got {
                    self.viol(
                        "C13",
                        "broadcast_bit",
                        "set-without-broadcast",
                        "IIN1.0 set although no unreported broadcast".into(),
                        J::Null,
                    );
                }
            }
            Bc::Unreported(mode) => {
                if !got {
                    self.viol(
                        "C13",
                        "broadcast_bit",
                        &format!("clear-but-unreported|{mode:#x}"),
                        format!(
                            "IIN1.0 clear although the broadcast to {mode:#x} was never reported"
                        ),
                        J::Null,
                    );
                    self.bc = Bc::None;
                } else {
                    out::count("broadcast_bit_ok", 1);
                    self.bc = if mode == 0xFFFE {
                        Bc::Reported(frag[0] & 0x0F, uns)
                    } else {
                        Bc::None
                    };
                }
            }
            Bc::Reported(_, _) => {
                if !got {
                    self.viol("C13", "broadcast_bit", "mandatory-dropped-before-confirm", "confirm-mandatory broadcast indication cleared although no CONFIRM was received".into(), J::Null);
                    self.bc = Bc::None;
                } else {
                    out::count("broadcast_mandatory_still_set_ok", 1);
                    // the most recent response carrying it is the one a confirm would match
                    self.bc = Bc::Reported(frag[0] & 0x0F, uns);
                }
            }
            Bc::Uncertain => {}
        }
    }

    /// the harness sent a CONFIRM (seq, uns). Whether the outstation accepts it as the confirmation of the
    /// response that carried a confirm-mandatory broadcast indication depends on the wait state it is in
    /// (timeouts, reconnects), so from here on the oracle is silent about that indication (DESIGN 5.22).
    fn note_confirm_sent(&mut self, _seq: u8, _uns: bool) {
        if let Bc::Reported(_, _) = self.bc {
            self.bc = Bc::Uncertain;
            out::count("broadcast_mandatory_confirm_sent", 1);
        }
    }

    /// one begin_confirm .. end_confirm bracket (or its absence when a release was expected)
    fn on_confirm_bracket(
        &mut self,
        cleared: Vec<u64>,
        end_state: Option<BufferState>,
        expect: Option<Vec<u64>>,
        what: &str,
    ) {
        let expect_list = expect.clone().unwrap_or_default();
        for id in &cleared {
            let pos = self.ledger.iter().position(|e| e.id == *id);
            match pos {
                None => self.viol(
                    "C03",
                    "R2_unknown_id",
                    what,
                    format!("event_cleared({id}) for an id never issued"),
                    J::Null,
                ),
                Some(p) => {
                    let (st, carried) = (self.ledger[p].st, self.ledger[p].carried.clone());
                    if st == St::Released {
                        self.viol(
                            "C03",
                            "R2_released_twice",
                            what,
                            format!("event {id} released twice"),
                            J::Null,
                        );
                    } else if st == St::Discarded {
                        self.viol(
                            "C03",
                            "R2_released_after_discard",
                            what,
                            format!("event {id} released after being discarded"),
                            J::Null,
                        );
                    }
                    if !expect_list.contains(id) {
                        let never = carried.is_empty();
                        self.viol(
                            "C03",
                            "R1_release_without_confirmed_carry",
                            &format!("{}|{what}", if never { "never-carried" } else { "carried-by-unconfirmed" }),
                            format!("event {id} released although the confirmed response (if any) did not carry it (carried by fragments {carried:?})"),
                            J::Null,
                        );
                    } else {
                        out::count("R1_release_justified", 1);
                    }
                    self.ledger[p].st = St::Released;
                }
            }
        }
        if let Some(exp) = &expect {
            for id in exp {
                if !cleared.contains(id)
                    && self.ledger.iter().any(|e| e.id == *id && e.st == St::Held)
                {
                    self.viol("C03", "R6_not_released", what, format!("confirmed response carried event {id} but the application was not told it was released"), J::Null);
                }
            }
            out::count("confirms_with_expected_release", 1);
        }
        if let Some(s) = end_state {
            // R3 conservation
            let mut by_class = [0usize; 3];
            let mut by_type = [0usize; 8];
            for e in self.held() {
                if (1..=3).contains(&e.class) {
                    by_class[e.class as usize - 1] += 1;
                }
                by_type[e.t] += 1;
            }
            let got_c = [
                s.classes.num_class_1,
                s.classes.num_class_2,
                s.classes.num_class_3,
            ];
            let t = s.types;
            let got_t = [
                t.num_binary_input,
                t.num_double_bit_binary_input,
                t.num_binary_output_status,
                t.num_counter,
                t.num_frozen_counter,
                t.num_analog,
                t.num_analog_output_status,
                t.num_octet_string,
            ];
            if got_c != by_class || got_t != by_type {
                self.viol("C03", "R3_conservation", what, format!("buffer state after confirm {got_c:?}/{got_t:?}, ledger created-released-discarded = {by_class:?}/{by_type:?}"), J::Null);
            } else {
                out::count("R3_conservation_ok", 1);
            }
            // overflow model: re-evaluated at every confirmation
            let any_full = (0..8)
                .any(|t| self.cfg.event_cfg[t] > 0 && by_type[t] >= self.cfg.event_cfg[t] as usize);
            if !any_full {
                self.overflow = false;
            }
        } else if !cleared.is_empty() {
            self.viol(
                "C03",
                "R6_no_bracket",
                what,
                "event_cleared outside begin_confirm/end_confirm".into(),
                J::Null,
            );
        }
    }

    fn next_seq(&mut self) -> u8 {
        self.seq = (self.seq + 1) & 0x0F;
        self.seq
    }

    /// Process everything that happened since the last stimulus IN ORDER (global order stamps shared by
    /// the pipe writes and the mock callbacks). Unsolicited fragments -> `on_unsol`; solicited -> `on_sol`;
    /// confirm brackets -> ledger rules (the first bracket is matched against `expect`).
    /// `pre_sol` runs right before the first solicited fragment is processed: state changes caused by the
    /// triggering request (enabled classes ...) take effect when its response is built.
    pub fn process_all(
        &mut self,
        rx: Vec<Rx>,
        expect: Option<Vec<u64>>,
        what: &str,
        mut pre_sol: Option<&mut dyn FnMut(&mut Self)>,
    ) -> Vec<Carried> {
        enum It {
            F(Rx),
            C(Ev),
        }
        let mut items: Vec<(u64, It)> = rx.into_iter().map(|x| (x.ord(), It::F(x))).collect();
        for (o, _, e) in self.sim.mock.take_ordered() {
            items.push((o, It::C(e)));
        }
        items.sort_by_key(|x| x.0);
        let mut expect = expect;
        let mut bracket: Option<Vec<u64>> = None;
        let mut sols = vec![];
        for (_, it) in items {
            match it {
                It::C(Ev::BeginConfirm) => bracket = Some(vec![]),
                It::C(Ev::Cleared(id)) => match &mut bracket {
                    Some(b) => b.push(id),
                    None => self.on_confirm_bracket(vec![id], None, None, what),
                },
                It::C(Ev::EndConfirm(state)) => {
                    let cleared = bracket.take().unwrap_or_default();
                    let e = expect.take();
                    self.on_confirm_bracket(cleared, Some(state), e, what);
                }
                It::C(Ev::ClearRestartIin) => self.restart = false,
                It::C(Ev::BroadcastReceived(_)) => {
                    if let Some(mode) = self.bc_sent.pop_front() {
                        self.bc = Bc::Unreported(mode);
                    }
                    // a broadcast ENABLE / DISABLE_UNSOLICITED has no response: it takes effect where the
                    // outstation reports having processed it
                    if let Some(Some((enable, set))) = self.bc_effects.pop_front() {
                        for k in 0..3 {
                            if set[k] {
                                self.enabled[k] = enable;
                            }
                        }
                    }
                }
                It::C(_) => {}
                It::F(Rx::Fragment { t_ms, bytes, .. }) => {
                    if bytes.len() >= 2 && bytes[1] == ra::F_UNSOL_RESPONSE {
                        self.on_unsol(t_ms, bytes);
                    } else if bytes.len() >= 4 {
                        if let Some(f) = pre_sol.take() {
                            f(self);
                        }
                        sols.push(self.on_sol(t_ms, bytes, what, true));
                        if self.cancel_unsol_after_next_sol {
                            self.cancel_unsol_after_next_sol = false;
                            self.out_unsol = None;
                        }
                    }
                }
                It::F(Rx::Garbage { why, bytes, .. }) => {
                    self.viol("C03", "wire_garbage", "garbage", why, J::hex(&bytes))
                }
                It::F(_) => {}
            }
        }
        if let Some(e) = expect.take() {
            // a release was expected but no confirm bracket occurred
            self.on_confirm_bracket(vec![], None, Some(e), what);
        }
        if let Some(f) = pre_sol.take() {
            f(self);
        }
        self.cancel_unsol_after_next_sol = false;
        sols
    }

    /// handle one unsolicited fragment: series tracking, R4, R5 (unsolicited), C13
    pub fn on_unsol(&mut self, t_ms: u64, f: Vec<u8>) {
        self.serial += 1;
        let seq = f[0] & 0x0F;
        let is_retry = self
            .out_unsol
            .as_ref()
            .map(|c| c.bytes == f)
            .unwrap_or(false);
        if is_retry {
            if let Some(c) = &mut self.out_unsol {
                c.t_ms = t_ms;
            }
            out::count("unsol_retries", 1);
            self.hist.push(format!("t={t_ms} <- unsol retry seq={seq}"));
            return;
        }
        // a new series: the previous one (if any) ended without confirmation
        self.out_unsol = None;
        let ids = self.attribute(&f, "unsol");
        let serial = self.serial;
        for id in &ids {
            if let Some(e) = self.ledger.iter_mut().find(|e| e.id == *id) {
                e.carried.push(serial);
            }
        }
        let null = f.len() == 4;
        if !null {
            // R5 (unsolicited): re-selection from scratch over enabled classes, oldest first, prefix by space
            let mut expect: Vec<u64> = self
                .held()
                .filter(|e| (1..=3).contains(&e.class) && self.enabled[e.class as usize - 1])
                .map(|e| e.id)
                .collect();
            expect.sort();
            if !(ids.len() <= expect.len() && expect[..ids.len()] == ids[..]) {
                let carried_before = expect.iter().take(ids.len().max(1)).any(|id| {
                    !ids.contains(id)
                        && self
                            .ledger
                            .iter()
                            .any(|e| e.id == *id && !e.carried.is_empty())
                });
                self.viol("C03", "R5_unsol_selection", if carried_before { "previously-carried-not-offered" } else { "selection" }, format!("unsolicited response carries {ids:?}, expected a prefix of {expect:?} (enabled {:?})", self.enabled), J::hex(&f[..f.len().min(80)]));
            } else {
                out::count("R5_unsol_selection_ok", 1);
            }
            if !self.null_confirmed {
                self.viol(
                    "C14",
                    "U1_data_before_null_confirmed",
                    "data",
                    "data-bearing unsolicited response before the null response was confirmed"
                        .into(),
                    J::Null,
                );
            }
        }
        self.hist.push(format!(
            "t={t_ms} <- unsol seq={seq} ids={ids:?} iin={:02x}{:02x}",
            f[2], f[3]
        ));
        // the unsolicited response's own events count as "part of"
        self.check_iin(&f, &ids, "unsol");
        self.last_unsol_seq = Some(seq);
        self.out_unsol = Some(Carried {
            serial,
            seq,
            ids,
            fin: true,
            bytes: f,
            t_ms,
        });
        out::count("unsol_series_seen", 1);
    }

    /// handle one solicited response fragment to `what`; returns the Carried record
    pub fn on_sol(&mut self, t_ms: u64, f: Vec<u8>, what: &str, fresh: bool) -> Carried {
        self.serial += 1;
        let ids = self.attribute(&f, what);
        let serial = self.serial;
        for id in &ids {
            if let Some(e) = self.ledger.iter_mut().find(|e| e.id == *id) {
                e.carried.push(serial);
            }
        }
        self.hist.push(format!(
            "t={t_ms} <- sol seq={} ctrl={:02x} ids={ids:?} iin={:02x}{:02x} len={}",
            f[0] & 0x0F,
            f[0] & 0xF0,
            f[2],
            f[3],
            f.len()
        ));
        if fresh {
            self.check_iin(&f, &ids, what);
        }
        Carried {
            serial,
            seq: f[0] & 0x0F,
            ids,
            fin: f[0] & ra::FIN != 0,
            bytes: f,
            t_ms,
        }
    }

    /// send a fragment from the configured master, settle, return what was written (wire order)
    pub async fn exchange(&mut self, frag: &[u8]) -> Vec<Rx> {
        if frag.len() >= 2 && frag[1] == ra::F_CONFIRM {
            self.note_confirm_sent(frag[0] & 0x0F, frag[0] & ra::UNS != 0);
        }
        self.sim.request(frag).await
    }

    pub async fn idle_collect(&mut self) -> Vec<Rx> {
        settle().await;
        self.sim.collect()
    }

    /// nothing solicited is expected: process and flag any solicited fragment
    pub fn expect_no_sol(
        &mut self,
        rx: Vec<Rx>,
        expect: Option<Vec<u64>>,
        what: &str,
        prop: &str,
        rule: &str,
    ) {
        let s = self.process_all(rx, expect, what, None);
        if !s.is_empty() {
            self.viol(
                prop,
                rule,
                what,
                format!("unexpected solicited fragment after {what}"),
                J::hex(&s[0].bytes[..s[0].bytes.len().min(60)]),
            );
        }
    }
}

fn meas_matches(e: &LEv, m: &Meas) -> bool {
    let v = match (&e.val, &m.val) {
        (UVal::Bin(a), Val::Bool(b)) => a == b,
        (UVal::Dbl(a), Val::DBit(b)) => a == b,
        (UVal::Num(a), Val::U32(b)) => a == b,
        (UVal::Num(a), Val::U16(b)) => *a == *b as u32,
        (UVal::Ana(a), x @ (Val::I32(_) | Val::I16(_) | Val::F32(_) | Val::F64(_))) => {
            *a == x.as_f64()
        }
        (UVal::Oct(a), Val::Bytes(b)) => a == b,
        _ => false,
    };
    if !v {
        return false;
    }
    if let Some(f) = m.flags {
        if f != e.flags {
            return false;
        }
    }
    if let Some(t) = m.time {
        if t != e.time {
            return false;
        }
    }
    true
}

// ---------------------------------------------------------------------------
// scenario driver

#[derive(Clone, Copy, PartialEq, Debug)]
enum Act {
    ConfirmRight,
    ConfirmWrongSeq,
    ConfirmWrongUns,
    Timeout,
    LateConfirm,
    AbortWithRequest,
    ReconnectClose,
    ReconnectPreempt,
    Leave,
}

fn pick_act(r: &mut Rng, profile: &str) -> Act {
    let w: [u32; 9] = if profile == "c13" {
        [50, 6, 4, 10, 4, 8, 3, 3, 6]
    } else {
        [40, 8, 6, 12, 8, 10, 6, 6, 4]
    };
    [
        Act::ConfirmRight,
        Act::ConfirmWrongSeq,
        Act::ConfirmWrongUns,
        Act::Timeout,
        Act::LateConfirm,
        Act::AbortWithRequest,
        Act::ReconnectClose,
        Act::ReconnectPreempt,
        Act::Leave,
    ][r.weighted(&w)]
}

impl<'a> World<'a> {
    async fn do_reconnect(&mut self, close: bool) {
        if close {
            self.sim.reconnect_close().await;
        } else {
            self.sim.reconnect_preempt().await;
        }
        self.hist.push(format!(
            "t={} reconnect {}",
            self.sim.now(),
            if close { "close" } else { "preempt" }
        ));
        self.out_sol = None;
        self.out_unsol = None;
        self.series_expect = None;
        let rx = self.idle_collect().await;
        self.expect_no_sol(
            rx,
            None,
            "reconnect",
            "C11",
            "stale_response_on_new_connection",
        );
        out::count(
            if close {
                "reconnect_close"
            } else {
                "reconnect_preempt"
            },
            1,
        );
    }

    /// build a READ request and its reference selection headers
    fn make_read(&mut self) -> (Vec<u8>, Vec<(char, u8, Option<usize>)>, String) {
        let seq = self.next_seq();
        let mut b = ra::B::request(ra::F_READ, seq);
        let mut hs = vec![];
        let mut label = String::new();
        let n = self.r.range(1, 3);
        for _ in 0..n {
            match self.r.below(4) {
                0 | 1 => {
                    let k = self.r.range(1, 3) as u8;
                    if self.r.chance(1, 3) {
                        let lim = self.r.range(0, 4) as u8;
                        b = b.count8(60, k + 1, lim, &[]);
                        hs.push(('c', k, Some(lim as usize)));
                        label += &format!("class{k}[{lim}] ");
                    } else {
                        b = b.all(60, k + 1);
                        hs.push(('c', k, None));
                        label += &format!("class{k} ");
                    }
                }
                2 => {
                    let t = self.r.below(8) as u8;
                    let g = EGROUP[t as usize];
                    if self.r.chance(1, 3) {
                        let lim = self.r.range(0, 4) as u16;
                        b = if self.r.bool() {
                            b.count8(g, 0, lim as u8, &[])
                        } else {
                            b.count16(g, 0, lim, &[])
                        };
                        hs.push(('t', t, Some(lim as usize)));
                        label += &format!("g{g}v0[{lim}] ");
                    } else {
                        b = b.all(g, 0);
                        hs.push(('t', t, None));
                        label += &format!("g{g}v0 ");
                    }
                }
                _ => {
                    b = b.all(60, 2).all(60, 3).all(60, 4);
                    hs.extend([('c', 1, None), ('c', 2, None), ('c', 3, None)]);
                    label += "class123 ";
                }
            }
        }
        if self.r.chance(1, 4) {
            b = b.all(60, 1);
            label += "class0";
        }
        (b.done(), hs, label)
    }

    /// one READ with its series and the follow-up actions
    async fn poll(&mut self, profile: &str) {
        let (rd, hs, label) = self.make_read();
        let expect_all = self.reference_selection(&hs);
        self.hist.push(format!(
            "t={} -> READ {label} seq={} (reference selection {expect_all:?})",
            self.sim.now(),
            self.seq
        ));
        // a new request ends an outstanding solicited series
        self.out_sol = None;
        self.series_expect = Some(expect_all.clone());
        let rx = self.exchange(&rd).await;
        let mut sol = self.process_all(rx, None, "read", None);
        if sol.is_empty() && self.cfg.unsolicited && self.out_unsol.is_some() {
            // deferred during the unsolicited confirm wait
            out::count("reads_deferred", 1);
            let to = self.cfg.confirm_timeout_ms;
            let c = self.out_unsol.clone().unwrap();
            if self.r.bool() {
                // confirm the unsolicited response: releases its events, then the read is served
                let cf = ra::B::confirm(c.seq, true).done();
                self.hist.push(format!(
                    "t={} -> unsol CONFIRM seq={} (read deferred)",
                    self.sim.now(),
                    c.seq
                ));
                let rx = self.exchange(&cf).await;
                self.out_unsol = None;
                if c.bytes.len() == 4 {
                    self.null_confirmed = true;
                }
                // selection happens after the release, when the deferred read is served
                let hs2 = hs.clone();
                let mut pre = |w: &mut Self| {
                    w.series_expect = Some(w.reference_selection(&hs2));
                };
                sol = self.process_all(rx, Some(c.ids.clone()), "read", Some(&mut pre));
            } else {
                self.sim.advance(to).await;
                self.hist.push(format!(
                    "t={} (waited {to} ms for the deferred read)",
                    self.sim.now()
                ));
                let rx = self.idle_collect().await;
                // the unsolicited series ended unconfirmed (a deferred read stops retries)
                self.out_unsol = None;
                let hs2 = hs.clone();
                let mut pre = |w: &mut Self| {
                    w.series_expect = Some(w.reference_selection(&hs2));
                };
                sol = self.process_all(rx, None, "read", Some(&mut pre));
            }
        }
        if sol.is_empty() {
            self.viol(
                "C12",
                "S1_silence",
                "read",
                "READ got no response".into(),
                J::hex(&rd),
            );
            return;
        }
        out::eval(1);
        if sol.len() > 1 {
            self.viol(
                "C11",
                "series_not_gated",
                "read",
                "more than one fragment transmitted without a confirm".into(),
                J::Null,
            );
        }
        let mut frag_no = 0usize;
        let mut c = sol.remove(0);
        loop {
            frag_no += 1;
            // R5: what this fragment carries must be the next part of the reference selection
            if let Some(mut exp) = self.series_expect.take() {
                let n = c.ids.len();
                if n <= exp.len() && exp[..n] == c.ids[..] {
                    exp.drain(..n);
                    out::count("R5_selection_prefix_ok", 1);
                    if c.fin && !exp.is_empty() {
                        let carried_before = exp.iter().any(|id| {
                            self.ledger
                                .iter()
                                .any(|e| e.id == *id && e.carried.iter().any(|s| *s != c.serial))
                        });
                        self.viol(
                            "C03",
                            "R5_offered_until_confirmed",
                            &format!(
                                "read|final-but-missing|{}",
                                if carried_before {
                                    "previously-carried"
                                } else {
                                    "never-carried"
                                }
                            ),
                            format!(
                                "final fragment sent but selected events {exp:?} were not reported"
                            ),
                            J::Null,
                        );
                    }
                    self.series_expect = Some(exp);
                } else {
                    let missing: Vec<u64> = exp
                        .iter()
                        .take(n.max(1))
                        .filter(|x| !c.ids.contains(x))
                        .cloned()
                        .collect();
                    let carried_before = missing.iter().any(|id| {
                        self.ledger
                            .iter()
                            .any(|e| e.id == *id && e.carried.iter().any(|s| *s != c.serial))
                    });
                    self.viol(
                        "C03",
                        "R5_offered_until_confirmed",
                        &format!("read|{}", if carried_before { "previously-carried-not-offered" } else { "selection" }),
                        format!("fragment {frag_no} carries {:?}, reference selection continues with {:?}", c.ids, &exp[..exp.len().min(8)]),
                        J::Null,
                    );
                    self.series_expect = None;
                }
            }
            let con = c.bytes[0] & ra::CON != 0;
            if !c.ids.is_empty() && !con {
                self.viol(
                    "C11",
                    "event_fragment_without_con",
                    "read",
                    "fragment with events does not request confirmation".into(),
                    J::Null,
                );
            }
            if !con {
                self.out_sol = None;
                break;
            }
            self.out_sol = Some(c.clone());
            out::distinct(&format!(
                "{profile}/sol/frag{}/{}",
                frag_no.min(3),
                if c.fin { "fin" } else { "more" }
            ));
            // maybe update while the fragment awaits its confirm (events created now are not part of the series)
            if self.r.chance(1, 3) {
                let k = self.r.range(1, 3);
                for _ in 0..k {
                    let p = self.r.usize_below(self.pts.len());
                    self.update(p);
                }
                let rx = self.idle_collect().await;
                self.expect_no_sol(rx, None, "update-in-wait", "C11", "series_not_gated");
            }
            let act = pick_act(&mut self.r, profile);
            out::distinct(&format!("{profile}/sol/act/{act:?}/frag{}", frag_no.min(2)));
            match act {
                Act::ConfirmRight => {
                    let cf = ra::B::confirm(c.seq, false).done();
                    self.hist
                        .push(format!("t={} -> CONFIRM seq={}", self.sim.now(), c.seq));
                    let rx = self.exchange(&cf).await;
                    let ids = self
                        .out_sol
                        .as_ref()
                        .map(|c| c.ids.clone())
                        .unwrap_or_default();
                    self.out_sol = None;
                    let s = self.process_all(rx, Some(ids), "read", None);
                    if c.fin {
                        if !s.is_empty() {
                            self.viol(
                                "C11",
                                "series_continues_after_fin",
                                "read",
                                "fragment after the confirm of the final fragment".into(),
                                J::Null,
                            );
                        }
                        break;
                    }
                    if s.is_empty() {
                        self.viol(
                            "C11",
                            "series_stalled",
                            "read",
                            "no next fragment after the confirm of a non-final fragment".into(),
                            J::Null,
                        );
                        break;
                    }
                    let prev_seq = c.seq;
                    c = s[0].clone();
                    if c.seq != (prev_seq + 1) & 0x0F || c.bytes[0] & ra::FIR != 0 {
                        self.viol(
                            "C11",
                            "series_numbering",
                            "read",
                            format!(
                                "next fragment has control {:02x} after sequence {}",
                                c.bytes[0], prev_seq
                            ),
                            J::Null,
                        );
                    }
                    continue;
                }
                Act::ConfirmWrongSeq | Act::ConfirmWrongUns => {
                    let cf = if act == Act::ConfirmWrongSeq {
                        ra::B::confirm((c.seq + self.r.range(1, 15) as u8) & 0x0F, false).done()
                    } else {
                        ra::B::confirm(c.seq, true).done()
                    };
                    self.hist.push(format!(
                        "t={} -> wrong CONFIRM {}",
                        self.sim.now(),
                        hex(&cf)
                    ));
                    let rx = self.exchange(&cf).await;
                    self.expect_no_sol(rx, None, "wrong-confirm", "C11", "series_not_gated");
                    // still waiting: now give the right one or let it time out
                    if self.r.bool() {
                        let cf = ra::B::confirm(c.seq, false).done();
                        self.hist
                            .push(format!("t={} -> CONFIRM seq={}", self.sim.now(), c.seq));
                        let rx = self.exchange(&cf).await;
                        let ids = self
                            .out_sol
                            .as_ref()
                            .map(|c| c.ids.clone())
                            .unwrap_or_default();
                        self.out_sol = None;
                        let s = self.process_all(rx, Some(ids), "read", None);
                        if c.fin || s.is_empty() {
                            break;
                        }
                        c = s[0].clone();
                        continue;
                    } else {
                        self.sim.advance(self.cfg.confirm_timeout_ms).await;
                        let rx = self.idle_collect().await;
                        self.out_sol = None;
                        self.series_expect = None;
                        self.expect_no_sol(
                            rx,
                            None,
                            "sol-timeout",
                            "C11",
                            "series_continues_after_timeout",
                        );
                        break;
                    }
                }
                Act::Timeout | Act::LateConfirm => {
                    self.sim.advance(self.cfg.confirm_timeout_ms).await;
                    self.hist
                        .push(format!("t={} (confirm timeout)", self.sim.now()));
                    let rx = self.idle_collect().await;
                    self.out_sol = None;
                    self.series_expect = None;
                    self.expect_no_sol(
                        rx,
                        None,
                        "sol-timeout",
                        "C11",
                        "series_continues_after_timeout",
                    );
                    if act == Act::LateConfirm {
                        let cf = ra::B::confirm(c.seq, false).done();
                        self.hist.push(format!(
                            "t={} -> late CONFIRM seq={}",
                            self.sim.now(),
                            c.seq
                        ));
                        let rx = self.exchange(&cf).await;
                        // received in the idle state (or in an unsolicited confirm wait, where it clears a mandatory broadcast)
                        self.expect_no_sol(
                            rx,
                            None,
                            "late-confirm",
                            "C11",
                            "series_continues_after_timeout",
                        );
                        out::count("late_confirms", 1);
                    }
                    out::count("sol_timeouts", 1);
                    break;
                }
                Act::AbortWithRequest => {
                    // a non-read request aborts the series
                    let seq = self.next_seq();
                    let q = ra::B::request(ra::F_DELAY_MEASURE, seq).done();
                    self.hist.push(format!(
                        "t={} -> DELAY_MEASURE (aborts the series)",
                        self.sim.now()
                    ));
                    let rx = self.exchange(&q).await;
                    // a new request ends the series the moment it is received
                    self.out_sol = None;
                    self.series_expect = None;
                    let s = self.process_all(rx, None, "delay-measure", None);
                    for f in &s {
                        if f.seq != seq {
                            self.viol(
                                "C11",
                                "series_continues_after_new_request",
                                "abort",
                                "series fragment sent after a new request".into(),
                                J::Null,
                            );
                        }
                    }
                    // the old confirm now must release nothing
                    if self.r.bool() {
                        let cf = ra::B::confirm(c.seq, false).done();
                        self.hist.push(format!(
                            "t={} -> stale CONFIRM seq={}",
                            self.sim.now(),
                            c.seq
                        ));
                        let rx = self.exchange(&cf).await;
                        self.expect_no_sol(
                            rx,
                            None,
                            "confirm-after-abort",
                            "C12",
                            "S3_confirm_answered",
                        );
                    }
                    out::count("aborts", 1);
                    break;
                }
                Act::ReconnectClose | Act::ReconnectPreempt => {
                    self.do_reconnect(act == Act::ReconnectClose).await;
                    // a confirm on the new connection must release nothing
                    let cf = ra::B::confirm(c.seq, false).done();
                    self.hist.push(format!(
                        "t={} -> CONFIRM seq={} on the new connection",
                        self.sim.now(),
                        c.seq
                    ));
                    let rx = self.exchange(&cf).await;
                    self.expect_no_sol(
                        rx,
                        None,
                        "confirm-after-reconnect",
                        "C11",
                        "series_continues_after_reconnect",
                    );
                    break;
                }
                Act::Leave => {
                    // leave it outstanding: the next operation decides
                    break;
                }
            }
        }
    }

    /// react to an outstanding unsolicited response
    async fn handle_unsol(&mut self, profile: &str) {
        let Some(c) = self.out_unsol.clone() else {
            return;
        };
        let null = c.bytes.len() == 4;
        let act = match self.r.weighted(&[45, 8, 6, 20, 10, 5, 5]) {
            0 => Act::ConfirmRight,
            1 => Act::ConfirmWrongSeq,
            2 => Act::ConfirmWrongUns,
            3 => Act::Timeout,
            4 => Act::AbortWithRequest, // DISABLE_UNSOLICITED
            5 => Act::ReconnectClose,
            _ => Act::ReconnectPreempt,
        };
        out::distinct(&format!(
            "{profile}/unsol/act/{act:?}/{}",
            if null { "null" } else { "data" }
        ));
        match act {
            Act::ConfirmRight => {
                let cf = ra::B::confirm(c.seq, true).done();
                self.hist.push(format!(
                    "t={} -> unsol CONFIRM seq={}",
                    self.sim.now(),
                    c.seq
                ));
                let rx = self.exchange(&cf).await;
                self.out_unsol = None;
                if null {
                    self.null_confirmed = true;
                }
                self.expect_no_sol(
                    rx,
                    Some(c.ids.clone()),
                    "unsol-confirm",
                    "C12",
                    "S3_confirm_answered",
                );
            }
            Act::ConfirmWrongSeq | Act::ConfirmWrongUns => {
                let cf = if act == Act::ConfirmWrongSeq {
                    ra::B::confirm((c.seq + self.r.range(1, 15) as u8) & 0x0F, true).done()
                } else {
                    ra::B::confirm(c.seq, false).done()
                };
                self.hist.push(format!(
                    "t={} -> wrong unsol CONFIRM {}",
                    self.sim.now(),
                    hex(&cf)
                ));
                let rx = self.exchange(&cf).await;
                self.expect_no_sol(
                    rx,
                    None,
                    "wrong-unsol-confirm",
                    "C12",
                    "S3_confirm_answered",
                );
            }
            Act::Timeout => {
                self.sim.advance(self.cfg.confirm_timeout_ms).await;
                self.hist
                    .push(format!("t={} (unsol confirm timeout)", self.sim.now()));
                let rx = self.idle_collect().await;
                let before = self.out_unsol.as_ref().map(|c| (c.serial, c.t_ms));
                self.expect_no_sol(rx, None, "unsol-timeout", "C12", "S1_spontaneous");
                // no retransmission and no new series: the series ended
                if self.out_unsol.as_ref().map(|c| (c.serial, c.t_ms)) == before {
                    self.out_unsol = None;
                    out::count("unsol_series_given_up", 1);
                }
            }
            Act::AbortWithRequest => {
                let seq = self.next_seq();
                let q = ra::B::request(ra::F_DISABLE_UNSOL, seq)
                    .all(60, 2)
                    .all(60, 3)
                    .all(60, 4)
                    .done();
                self.hist
                    .push(format!("t={} -> DISABLE_UNSOLICITED", self.sim.now()));
                let rx = self.exchange(&q).await;
                // the request takes effect when processed; its own response is built while the cancelled
                // unsolicited response still counts as outstanding (the oracle keeps it until afterwards)
                self.out_sol = None;
                let mut pre = |w: &mut Self| {
                    w.enabled = [false; 3];
                };
                self.cancel_unsol_after_next_sol = true;
                let _ = self.process_all(rx, None, "disable-unsol", Some(&mut pre));
                out::count("disable_during_unsol_wait", 1);
            }
            Act::ReconnectClose | Act::ReconnectPreempt => {
                self.do_reconnect(act == Act::ReconnectClose).await;
            }
            _ => {}
        }
    }
}

pub async fn scenario(a: &ShardArgs, check: &'static str, profile: &'static str, idx: u64) {
    let mut r = a.rng(&format!("{check}/{idx}"));
    let mut cfg = OutCfg::default();
    cfg.sol_tx = *r.pick(&[249usize, 300, 512, 2048]);
    cfg.unsol_tx = *r.pick(&[249usize, 300, 2048]);
    cfg.decode = r.usize_below(108);
    cfg.unsolicited = r.chance(1, 2);
    cfg.confirm_timeout_ms = *r.pick(&[100u64, 1000]);
    cfg.max_unsol_retries = *r.pick(&[None, Some(0usize), Some(1), Some(2)]);
    cfg.unsol_retry_delay_ms = *r.pick(&[0u64, 100, 5000]);
    cfg.discard = r.bool();
    let small = r.chance(if profile == "c13" { 3 } else { 1 }, 4);
    for t in 0..8 {
        cfg.event_cfg[t] = if small {
            *r.pick(&[0u16, 1, 2, 3, 5])
        } else {
            *r.pick(&[3u16, 10, 100])
        };
    }
    // one scenario in ten can hold several hundred events of one type and transmit them in one fragment: object headers
    // with more than 255 events
    let burst_type: Option<usize> = if !small && r.chance(1, 10) {
        let bt = r.usize_below(8);
        cfg.event_cfg[bt] = *r.pick(&[300u16, 400]);
        cfg.sol_tx = 2048;
        cfg.unsol_tx = 2048;
        Some(bt)
    } else {
        None
    };
    let npt = r.range(1, 3) as u16;
    let mut pts = vec![];
    for t in 0..8 {
        for i in 0..npt {
            let class = match r.below(8) {
                0 => None,
                x => Some((x % 3 + 1) as u8),
            };
            pts.push(Pt {
                t,
                index: i * 7 + (t as u16 % 3),
                class,
                vseed: r.u64(),
            });
        }
    }
    let pts2 = pts.clone();
    let sim = OutSim::start_with(cfg.clone(), |db| {
        for p in &pts2 {
            add_point(db, &mut Rng::new(p.vseed), p.t, p.index, p.class);
        }
    })
    .await;
    let mut w = World {
        a,
        check,
        idx,
        cfg: cfg.clone(),
        sim,
        r,
        pts,
        ledger: vec![],
        hist: vec![],
        tcount: 1_000_000,
        seq: 0,
        serial: 0,
        out_sol: None,
        out_unsol: None,
        overflow: false,
        restart: true,
        enabled: [false; 3],
        null_confirmed: false,
        bc: Bc::None,
        bc_sent: std::collections::VecDeque::new(),
        bc_effects: std::collections::VecDeque::new(),
        app_iin: (false, false, false, false),
        series_expect: None,
        last_unsol_seq: None,
        cancel_unsol_after_next_sol: false,
    };
    w.seq = w.r.below(16) as u8;
    let rx = w.idle_collect().await;
    w.expect_no_sol(rx, None, "start", "C12", "S1_spontaneous");

    let nops = w.r.range(4, 18);
    for _ in 0..nops {
        if w.sim.task_finished() {
            break;
        }
        // an outstanding unsolicited response is handled with priority some of the time
        if w.out_unsol.is_some() && w.r.chance(2, 3) {
            w.handle_unsol(profile).await;
            continue;
        }
        let weights: [u32; 8] = if profile == "c13" {
            [30, 22, 8, 3, 3, 6, 14, 14]
        } else {
            [34, 30, 10, 6, 6, 2, 6, 6]
        };
        match w.r.weighted(&weights) {
            0 => {
                if let Some(bt) = burst_type {
                    let cands: Vec<usize> = (0..w.pts.len()).filter(|i| w.pts[*i].t == bt && w.pts[*i].class.is_some()).collect();
                    if !cands.is_empty() && w.r.chance(1, 3) {
                        let p = *w.r.pick(&cands);
                        let n = w.r.range(256, 300);
                        for _ in 0..n {
                            w.update(p);
                        }
                        out::count("bursts_of_more_than_255_events", 1);
                    }
                }
                let k = w.r.range(1, 5);
                for _ in 0..k {
                    let p = w.r.usize_below(w.pts.len());
                    if w.r.chance(1, 10) {
                        w.remove_and_add(p);
                    }
                    w.update(p);
                }
                let rx = w.idle_collect().await;
                w.expect_no_sol(rx, None, "update", "C12", "S1_spontaneous");
            }
            1 => w.poll(profile).await,
            2 => {
                if !w.cfg.unsolicited {
                    continue;
                }
                // ENABLE / DISABLE unsolicited for a random set of classes
                let enable = w.r.chance(3, 4);
                let seq = w.next_seq();
                let mut b = ra::B::request(
                    if enable {
                        ra::F_ENABLE_UNSOL
                    } else {
                        ra::F_DISABLE_UNSOL
                    },
                    seq,
                );
                let mut set = [false; 3];
                for k in 0..3 {
                    if w.r.bool() {
                        set[k] = true;
                        b = b.all(60, k as u8 + 2);
                    }
                }
                w.hist.push(format!(
                    "t={} -> {} classes {set:?}",
                    w.sim.now(),
                    if enable {
                        "ENABLE_UNSOL"
                    } else {
                        "DISABLE_UNSOL"
                    }
                ));
                let rx = w.exchange(&b.done()).await;
                // a new request ends a solicited series the moment it is received
                w.out_sol = None;
                w.series_expect = None;
                let mut pre = |w: &mut World| {
                    // the request takes effect when it is processed, i.e. right before its response
                    for k in 0..3 {
                        if set[k] {
                            w.enabled[k] = enable;
                        }
                    }
                };
                w.cancel_unsol_after_next_sol = !enable;
                let _ = w.process_all(rx, None, "enable-disable", Some(&mut pre));
            }
            3 => w.do_reconnect(true).await,
            4 => w.do_reconnect(false).await,
            5 => {
                // clear the restart bit: WRITE g80v1 index 7 = 0 (sometimes a bad write)
                let seq = w.next_seq();
                let good = w.r.chance(3, 4);
                let q = if good {
                    ra::B::request(ra::F_WRITE, seq)
                        .range8(80, 1, 7, 7, &[0])
                        .done()
                } else if w.r.bool() {
                    ra::B::request(ra::F_WRITE, seq)
                        .range8(80, 1, 7, 7, &[1])
                        .done()
                } else {
                    ra::B::request(ra::F_WRITE, seq)
                        .range8(80, 1, 4, 4, &[0])
                        .done()
                };
                w.hist.push(format!(
                    "t={} -> WRITE restart bit ({})",
                    w.sim.now(),
                    if good { "index 7 = 0" } else { "bad" }
                ));
                let rx = w.exchange(&q).await;
                let before = w.restart;
                w.out_sol = None;
                w.series_expect = None;
                let answered = !w.process_all(rx, None, "write-restart", None).is_empty();
                if good && before && w.restart && answered {
                    w.viol("C13", "restart_bit", "not-cleared-by-write", "WRITE g80v1[7]=0 did not clear the restart indication (no clear_restart_iin callback)".into(), J::Null);
                }
                out::count("restart_writes", 1);
            }
            6 => {
                // flip application flags
                let f = (
                    w.r.chance(1, 3),
                    w.r.chance(1, 3),
                    w.r.chance(1, 3),
                    w.r.chance(1, 3),
                );
                w.app_iin = f;
                w.sim.mock.script(|s| {
                    s.app_iin.need_time = f.0;
                    s.app_iin.local_control = f.1;
                    s.app_iin.device_trouble = f.2;
                    s.app_iin.config_corrupt = f.3;
                });
                w.hist.push(format!("app flags {f:?}"));
            }
            _ => {
                // broadcast (three confirm modes)
                // a broadcast received during a solicited confirm wait aborts the series
                w.out_sol = None;
                w.series_expect = None;
                let mode = 0xFFFD + w.r.below(3) as u16;
                let bseq = w.r.below(16) as u8;
                // which function is broadcast: time record (no effect on the model), restart-bit write (the model
                // follows the clear_restart_iin callback) or, when no unsolicited response is outstanding,
                // ENABLE / DISABLE_UNSOLICITED (takes effect when processed: there is no response to wait for)
                let pick = w.r.below(6);
                let mut effect: Option<(bool, [bool; 3])> = None;
                let (q, what) = if pick == 0 {
                    (
                        ra::B::request(ra::F_WRITE, bseq)
                            .range8(80, 1, 7, 7, &[0])
                            .done(),
                        "WRITE restart bit".to_string(),
                    )
                } else if pick <= 2 && w.cfg.unsolicited && w.out_unsol.is_none() {
                    let enable = pick == 1;
                    let mut b = ra::B::request(
                        if enable {
                            ra::F_ENABLE_UNSOL
                        } else {
                            ra::F_DISABLE_UNSOL
                        },
                        bseq,
                    );
                    let mut set = [false; 3];
                    for k in 0..3 {
                        if w.r.bool() {
                            set[k] = true;
                            b = b.all(60, k as u8 + 2);
                        }
                    }
                    effect = Some((enable, set));
                    out::count("broadcast_enable_disable", 1);
                    (
                        b.done(),
                        format!(
                            "{} classes {set:?}",
                            if enable {
                                "ENABLE_UNSOL"
                            } else {
                                "DISABLE_UNSOL"
                            }
                        ),
                    )
                } else {
                    (
                        ra::B::request(ra::F_RECORD_CURRENT_TIME, bseq).done(),
                        "RECORD_CURRENT_TIME".to_string(),
                    )
                };
                if pick == 0 {
                    out::count("broadcast_restart_write", 1);
                }
                let m = w.cfg.master_addr;
                w.hist.push(format!(
                    "t={} -> broadcast to {mode:#x}: {what}",
                    w.sim.now()
                ));
                w.bc_sent.push_back(mode);
                w.bc_effects.push_back(effect);
                w.sim.send_from(m, mode, &q, &[]);
                let rx = w.idle_collect().await;
                w.expect_no_sol(rx, None, "broadcast", "C07", "broadcast_answered");
                out::count("broadcasts", 1);
            }
        }
    }
    for p in crate::verif::util::take_panics() {
        let loc = crate::verif::util::norm_location(&p.location);
        w.viol(
            "C01",
            "panic",
            &loc,
            format!("panic {} at {}", p.message, p.location),
            J::Null,
        );
        w.viol(
            if profile == "c13" { "C13" } else { "C03" },
            "panic",
            &loc,
            format!("panic {} at {}", p.message, p.location),
            J::Null,
        );
    }
    // H6: structural audit of the event buffer, run inside the database at every release of its lock
    for f in crate::verif::probe::take_audit_failures() {
        w.viol(
            if profile == "c13" { "C13" } else { "C03" },
            &format!("audit.{}", f.rule),
            f.site,
            format!("event buffer audit at {}: {}: {}", f.site, f.rule, f.detail),
            J::Null,
        );
    }
    if w.sim.task_finished() {
        w.viol(
            if profile == "c13" { "C13" } else { "C03" },
            "task_ended",
            "ended",
            "the outstation task ended".into(),
            J::Null,
        );
    }
    if a.replay.is_some() {
        for l in crate::verif::trace::tail(150) {
            eprintln!("TRACE {l}");
        }
        for h in &w.hist {
            eprintln!("HIST {h}");
        }
    }
    if out::sample_count() < 2 && w.hist.len() > 6 {
        out::sample(J::obj(vec![
            ("config", w.cfg.to_json()),
            ("history", J::arr(w.hist.iter().cloned())),
        ]));
    }
}

pub fn run(
    a: &ShardArgs,
    check: &'static str,
    profile: &'static str,
    quick_n: u64,
) -> Result<(), String> {
    let only: Option<u64> = a
        .replay
        .as_ref()
        .and_then(|p| super::common::replay_scenario(p));
    let n = a.n(quick_n);
    for idx in 0..n {
        if idx % a.nshards != a.shard {
            continue;
        }
        if let Some(o) = only {
            if o != idx {
                continue;
            }
        }
        out::progress(&format!("scenario {idx}"));
        run_scenario(scenario(a, check, profile, idx));
    }
    Ok(())
}
