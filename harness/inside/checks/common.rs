//! helpers shared by the checks
use crate::decode::*;
use crate::verif::rng::Rng;

/// all 4 x 3 x 3 x 3 decode level combinations, indexed
pub fn decode_level(i: usize) -> DecodeLevel {
    let app = [
        AppDecodeLevel::Nothing,
        AppDecodeLevel::Header,
        AppDecodeLevel::ObjectHeaders,
        AppDecodeLevel::ObjectValues,
    ][i % 4];
    let tr = [
        TransportDecodeLevel::Nothing,
        TransportDecodeLevel::Header,
        TransportDecodeLevel::Payload,
    ][(i / 4) % 3];
    let ln = [
        LinkDecodeLevel::Nothing,
        LinkDecodeLevel::Header,
        LinkDecodeLevel::Payload,
    ][(i / 12) % 3];
    let ph = [
        PhysDecodeLevel::Nothing,
        PhysDecodeLevel::Length,
        PhysDecodeLevel::Data,
    ][(i / 36) % 3];
    DecodeLevel::new(app, tr, ln, ph)
}

pub const NUM_DECODE_LEVELS: usize = 108;

pub fn split_every(bytes: &[u8], n: usize) -> Vec<Vec<u8>> {
    bytes.chunks(n.max(1)).map(|c| c.to_vec()).collect()
}

pub fn split_at(bytes: &[u8], k: usize) -> Vec<Vec<u8>> {
    let k = k.min(bytes.len());
    let mut v = vec![];
    if k > 0 {
        v.push(bytes[..k].to_vec());
    }
    if k < bytes.len() {
        v.push(bytes[k..].to_vec());
    }
    v
}

pub fn split_random(r: &mut Rng, bytes: &[u8]) -> Vec<Vec<u8>> {
    let mut v = vec![];
    let mut pos = 0;
    while pos < bytes.len() {
        let n = match r.below(4) {
            0 => 1,
            1 => r.range(1, 9) as usize,
            2 => r.range(1, 40) as usize,
            _ => r.range(1, 400) as usize,
        }
        .min(bytes.len() - pos);
        v.push(bytes[pos..pos + n].to_vec());
        pos += n;
    }
    v
}

/// pick a chunking class for a byte stream; returns (class name, chunks)
pub fn chunking(r: &mut Rng, bytes: &[u8]) -> (&'static str, Vec<Vec<u8>>) {
    match r.below(5) {
        0 => ("whole", vec![bytes.to_vec()]),
        1 => ("bytewise", split_every(bytes, 1)),
        2 => ("random", split_random(r, bytes)),
        3 => {
            let n = r.range(2, 17) as usize;
            ("small-fixed", split_every(bytes, n))
        }
        _ => {
            let n = r.range(250, 600) as usize;
            ("large-fixed", split_every(bytes, n))
        }
    }
}

/// extract `"scenario": N` from a replay file written by bin/check
pub fn replay_scenario(path: &str) -> Option<u64> {
    let text = std::fs::read_to_string(path).ok()?;
    let i = text.rfind("\"scenario\"")?;
    let rest = &text[i + 10..];
    let digits: String = rest
        .chars()
        .skip_while(|c| !c.is_ascii_digit())
        .take_while(|c| c.is_ascii_digit())
        .collect();
    digits.parse().ok()
}
