//! small helpers: hex, panic capture, manual polling

use std::future::Future;
use std::pin::Pin;
use std::sync::Mutex;
use std::task::{Context, Poll, Waker};

pub fn hex(b: &[u8]) -> String {
    let mut s = String::with_capacity(b.len() * 2);
    for x in b {
        s.push_str(&format!("{x:02x}"));
    }
    s
}

pub fn unhex(s: &str) -> Vec<u8> {
    let s: Vec<u8> = s.bytes().filter(|c| !c.is_ascii_whitespace()).collect();
    s.chunks(2)
        .map(|c| u8::from_str_radix(std::str::from_utf8(c).unwrap_or("0"), 16).unwrap_or(0))
        .collect()
}

#[derive(Clone, Debug)]
pub struct PanicRecord {
    pub message: String,
    pub location: String,
    pub thread: String,
}

static PANICS: Mutex<Vec<PanicRecord>> = Mutex::new(Vec::new());

pub fn install_panic_hook() {
    std::panic::set_hook(Box::new(|info| {
        let message = if let Some(s) = info.payload().downcast_ref::<&str>() {
            s.to_string()
        } else if let Some(s) = info.payload().downcast_ref::<String>() {
            s.clone()
        } else {
            "<non-string panic>".to_string()
        };
        let location = info
            .location()
            .map(|l| format!("{}:{}", l.file(), l.line()))
            .unwrap_or_default();
        let thread = std::thread::current()
            .name()
            .unwrap_or("<unnamed>")
            .to_string();
        let mut g = PANICS.lock().unwrap_or_else(|e| e.into_inner());
        if g.len() < 1000 {
            g.push(PanicRecord {
                message,
                location,
                thread,
            });
        }
    }));
}

/// drain the panics recorded since the last call
pub fn take_panics() -> Vec<PanicRecord> {
    let mut g = PANICS.lock().unwrap_or_else(|e| e.into_inner());
    std::mem::take(&mut *g)
}

pub fn panic_payload_to_string(p: &Box<dyn std::any::Any + Send>) -> String {
    if let Some(s) = p.downcast_ref::<&str>() {
        s.to_string()
    } else if let Some(s) = p.downcast_ref::<String>() {
        s.clone()
    } else {
        "<non-string panic>".to_string()
    }
}

/// strip the repository prefix from a panic location so signatures are stable
pub fn norm_location(loc: &str) -> String {
    match loc.find("dnp3/src/") {
        Some(i) => loc[i..].to_string(),
        None => loc.to_string(),
    }
}

/// Poll a future exactly once with a no-op waker.
pub fn poll_once<F: Future>(fut: Pin<&mut F>) -> Poll<F::Output> {
    let w = Waker::noop();
    let mut cx = Context::from_waker(w);
    fut.poll(&mut cx)
}

/// Run a future to completion assuming every Pending is followed by
/// immediate readiness (used only for always-ready scripted streams).
/// Returns None if the future stays pending `limit` times in a row.
pub fn drive<F: Future>(mut fut: Pin<&mut F>, limit: usize) -> Option<F::Output> {
    for _ in 0..limit {
        if let Poll::Ready(x) = poll_once(fut.as_mut()) {
            return Some(x);
        }
    }
    None
}

// ---- helpers for the binding harness (C20): a database outside any session, and its wire image

struct NoApp;
impl crate::outstation::OutstationApplication for NoApp {}
struct NoInfo;
impl crate::outstation::OutstationInformation for NoInfo {}

/// an outstation handle whose task is never run: only its database is used
pub fn detached_outstation(max_events: u16) -> crate::outstation::OutstationHandle {
    let cfg = crate::outstation::OutstationConfig::new(
        crate::link::EndpointAddress::try_new(1024).unwrap(),
        crate::link::EndpointAddress::try_new(1).unwrap(),
        crate::outstation::database::EventBufferConfig::all_types(max_events),
    );
    let mut server = crate::tcp::Server::new_tcp_server(
        crate::link::LinkErrorMode::Close,
        "127.0.0.1:0".parse().unwrap(),
    );
    let (handle, _future) = server
        .add_outstation_no_spawn(
            cfg,
            Box::new(NoApp),
            Box::new(NoInfo),
            crate::outstation::DefaultControlHandler::create(),
            crate::app::NullListener::create(),
            crate::tcp::AddressFilter::Any,
        )
        .expect("add_outstation_no_spawn");
    handle
}

/// everything a master could read from this database right now (all buffered events, then class 0), as response object bytes
pub fn db_image(db: &mut crate::outstation::database::Database) -> Vec<u8> {
    use crate::outstation::database::read::{ReadHeader, StaticReadHeader};
    db.inner.reset();
    db.inner
        .select_event_classes(crate::master::EventClasses::all());
    let _ = db
        .inner
        .select_by_header(ReadHeader::Static(StaticReadHeader::Class0));
    // device attributes: every attribute of every set, then the lists of variations (these carry the writable marks)
    let _ = db.inner.select_by_header(ReadHeader::Attr(
        crate::outstation::database::read::AttrHeader::All(254),
    ));
    let _ = db.inner.select_by_header(ReadHeader::Attr(
        crate::outstation::database::read::AttrHeader::All(255),
    ));
    let mut buf = vec![0u8; 60_000];
    let n = {
        let mut cursor = scursor::WriteCursor::new(&mut buf);
        let _ = db.inner.write_response_headers(&mut cursor);
        cursor.position()
    };
    db.inner.reset();
    buf.truncate(n);
    buf
}

/// crate-private constructors of the control code, for the binding harness
pub fn control_code_from(x: u8) -> crate::app::control::ControlCode {
    crate::app::control::ControlCode::from(x)
}
pub fn control_code_as_u8(c: crate::app::control::ControlCode) -> u8 {
    c.as_u8()
}

/// representative payloads of error variants whose payload types cannot be built from outside the crate
pub fn some_object_parse_error() -> crate::app::ObjectParseError {
    crate::app::ObjectParseError::InsufficientBytes
}
pub fn some_bad_encoding() -> crate::master::BadEncoding {
    crate::master::BadEncoding::Attribute(crate::app::attr::BadAttribute::BadLength(300))
}
pub fn some_link_error() -> crate::link::error::LinkError {
    crate::link::error::LinkError::Stdio(std::io::ErrorKind::BrokenPipe)
}
pub fn header_info(
    v: crate::app::Variation,
    q: crate::app::QualifierCode,
    is_event: bool,
    has_flags: bool,
) -> crate::master::HeaderInfo {
    crate::master::HeaderInfo::new(v, q, is_event, has_flags)
}
pub fn control_field_from(x: u8) -> crate::app::ControlField {
    crate::app::ControlField::from(x)
}

/// every group/variation pair the library knows
pub fn all_variations() -> Vec<crate::app::Variation> {
    let mut v = vec![];
    for g in 0..=255u8 {
        for var in 0..=255u8 {
            if let Some(x) = crate::app::Variation::lookup(g, var) {
                v.push(x);
            }
        }
    }
    v
}

fn with_header_writer(
    f: impl FnOnce(&mut crate::app::format::write::HeaderWriter) -> bool,
) -> Option<Vec<u8>> {
    let mut buf = vec![0u8; 8192];
    let mut cursor = scursor::WriteCursor::new(&mut buf);
    let ok = {
        let mut w = crate::app::format::write::HeaderWriter::new(&mut cursor);
        f(&mut w)
    };
    let n = cursor.position();
    if ok {
        Some(buf[..n].to_vec())
    } else {
        None
    }
}
/// object headers of a READ request as the master would put them on the wire
pub fn read_request_bytes(r: &crate::master::ReadRequest) -> Option<Vec<u8>> {
    with_header_writer(|w| r.format(w).is_ok())
}
/// object headers of a generic request
pub fn headers_bytes(h: &crate::master::Headers) -> Option<Vec<u8>> {
    with_header_writer(|w| h.write(w).is_ok())
}
/// object headers of a command request
pub fn command_bytes(c: &crate::master::CommandHeaders) -> Option<Vec<u8>> {
    with_header_writer(|w| c.write(w).is_ok())
}

/// a device attribute as the object (header included) that carries it in a response or a WRITE
pub fn owned_attribute_bytes(attr: &crate::app::attr::OwnedAttribute) -> Option<Vec<u8>> {
    with_header_writer(|w| w.write_attribute(attr).is_ok())
}

/// parse `objects` as the object headers of a response and run the master's extraction over them with `handler`
pub fn deliver_response_objects(objects: &[u8], handler: &mut dyn crate::master::ReadHandler) -> bool {
    match crate::app::parse::parser::HeaderCollection::parse(
        crate::app::parse::options::ParseOptions::default(),
        crate::app::FunctionCode::Response,
        objects,
    ) {
        Ok(objs) => {
            crate::master::extract::extract_measurements_inner(objs, handler);
            true
        }
        Err(_) => false,
    }
}
