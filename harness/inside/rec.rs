//! Recording `ReadHandler`: everything the master's extraction layer delivers,
//! flattened into comparable records.

use crate::app::attr::AnyAttribute;
use crate::app::measurement::*;
use crate::app::{MaybeAsync, ResponseHeader, Timestamp};
use crate::master::{HeaderInfo, ReadHandler, ReadType};
use crate::verif::refcodec::app::PType;
use std::sync::{Arc, Mutex};

#[derive(Clone, Debug, PartialEq)]
pub enum RVal {
    Bool(bool),
    DBit(u8),
    U32(u32),
    F64(f64),
    Bytes(Vec<u8>),
    /// analog command event value with its original width
    Cmd(String),
    U8(u8),
}

#[derive(Clone, Debug, PartialEq)]
pub struct Rec {
    pub ptype: PType,
    pub group: u8,
    pub var: u8,
    pub qualifier: u8,
    pub is_event: bool,
    pub has_flags: bool,
    pub index: u16,
    pub val: RVal,
    pub flags: u8,
    /// (synchronized, ms)
    pub time: Option<(bool, u64)>,
    pub status: Option<u8>,
}

#[derive(Clone, Debug, PartialEq)]
pub enum Item {
    Begin(String, u8),
    /// follows every `Begin`: (FIR, FIN, UNS) of the fragment
    Ctl(bool, bool, bool),
    End(String, u8),
    M(Rec),
    AbsTime(u64),
    Attr(String),
}

#[derive(Clone, Default)]
pub struct Recorder(pub Arc<Mutex<Vec<Item>>>);

impl Recorder {
    pub fn new() -> Self {
        Recorder(Arc::new(Mutex::new(vec![])))
    }
    pub fn take(&self) -> Vec<Item> {
        std::mem::take(&mut *self.0.lock().unwrap_or_else(|e| e.into_inner()))
    }
    pub fn measurements(&self) -> Vec<Rec> {
        self.take()
            .into_iter()
            .filter_map(|i| match i {
                Item::M(r) => Some(r),
                _ => None,
            })
            .collect()
    }
    fn push(&self, i: Item) {
        self.0.lock().unwrap_or_else(|e| e.into_inner()).push(i);
        crate::verif::io::bump();
    }
}

fn tm(t: Option<Time>) -> Option<(bool, u64)> {
    t.map(|t| match t {
        Time::Synchronized(x) => (true, x.raw_value()),
        Time::Unsynchronized(x) => (false, x.raw_value()),
    })
}

fn dbit(d: DoubleBit) -> u8 {
    match d {
        DoubleBit::Intermediate => 0,
        DoubleBit::DeterminedOff => 1,
        DoubleBit::DeterminedOn => 2,
        DoubleBit::Indeterminate => 3,
    }
}

fn base(
    info: HeaderInfo,
    ptype: PType,
    index: u16,
    val: RVal,
    flags: u8,
    time: Option<Time>,
) -> Item {
    let (group, var) = info.variation.to_group_and_var();
    Item::M(Rec {
        ptype,
        group,
        var,
        qualifier: info.qualifier.as_u8(),
        is_event: info.is_event,
        has_flags: info.has_flags,
        index,
        val,
        flags,
        time: tm(time),
        status: None,
    })
}

impl ReadHandler for Recorder {
    fn begin_fragment(&mut self, read_type: ReadType, header: ResponseHeader) -> MaybeAsync<()> {
        self.push(Item::Begin(
            format!("{read_type:?}"),
            header.control.seq.value(),
        ));
        self.push(Item::Ctl(
            header.control.fir,
            header.control.fin,
            header.control.uns,
        ));
        MaybeAsync::ready(())
    }
    fn end_fragment(&mut self, read_type: ReadType, header: ResponseHeader) -> MaybeAsync<()> {
        self.push(Item::End(
            format!("{read_type:?}"),
            header.control.seq.value(),
        ));
        MaybeAsync::ready(())
    }
    fn handle_binary_input(
        &mut self,
        info: HeaderInfo,
        iter: &mut dyn Iterator<Item = (BinaryInput, u16)>,
    ) {
        for (m, i) in iter {
            self.push(base(
                info,
                PType::Binary,
                i,
                RVal::Bool(m.value),
                m.flags.value,
                m.time,
            ));
        }
    }
    fn handle_double_bit_binary_input(
        &mut self,
        info: HeaderInfo,
        iter: &mut dyn Iterator<Item = (DoubleBitBinaryInput, u16)>,
    ) {
        for (m, i) in iter {
            self.push(base(
                info,
                PType::DoubleBit,
                i,
                RVal::DBit(dbit(m.value)),
                m.flags.value,
                m.time,
            ));
        }
    }
    fn handle_binary_output_status(
        &mut self,
        info: HeaderInfo,
        iter: &mut dyn Iterator<Item = (BinaryOutputStatus, u16)>,
    ) {
        for (m, i) in iter {
            self.push(base(
                info,
                PType::BinaryOutputStatus,
                i,
                RVal::Bool(m.value),
                m.flags.value,
                m.time,
            ));
        }
    }
    fn handle_counter(&mut self, info: HeaderInfo, iter: &mut dyn Iterator<Item = (Counter, u16)>) {
        for (m, i) in iter {
            self.push(base(
                info,
                PType::Counter,
                i,
                RVal::U32(m.value),
                m.flags.value,
                m.time,
            ));
        }
    }
    fn handle_frozen_counter(
        &mut self,
        info: HeaderInfo,
        iter: &mut dyn Iterator<Item = (FrozenCounter, u16)>,
    ) {
        for (m, i) in iter {
            self.push(base(
                info,
                PType::FrozenCounter,
                i,
                RVal::U32(m.value),
                m.flags.value,
                m.time,
            ));
        }
    }
    fn handle_analog_input(
        &mut self,
        info: HeaderInfo,
        iter: &mut dyn Iterator<Item = (AnalogInput, u16)>,
    ) {
        for (m, i) in iter {
            self.push(base(
                info,
                PType::Analog,
                i,
                RVal::F64(m.value),
                m.flags.value,
                m.time,
            ));
        }
    }
    fn handle_frozen_analog_input(
        &mut self,
        info: HeaderInfo,
        iter: &mut dyn Iterator<Item = (FrozenAnalogInput, u16)>,
    ) {
        for (m, i) in iter {
            self.push(base(
                info,
                PType::FrozenAnalog,
                i,
                RVal::F64(m.value),
                m.flags.value,
                m.time,
            ));
        }
    }
    fn handle_analog_input_dead_band(
        &mut self,
        info: HeaderInfo,
        iter: &mut dyn Iterator<Item = (AnalogInputDeadBand, u16)>,
    ) {
        for (m, i) in iter {
            let v = match m {
                AnalogInputDeadBand::U16(x) => x as f64,
                AnalogInputDeadBand::U32(x) => x as f64,
                AnalogInputDeadBand::F32(x) => x as f64,
            };
            self.push(base(info, PType::AnalogDeadBand, i, RVal::F64(v), 0, None));
        }
    }
    fn handle_analog_output_status(
        &mut self,
        info: HeaderInfo,
        iter: &mut dyn Iterator<Item = (AnalogOutputStatus, u16)>,
    ) {
        for (m, i) in iter {
            self.push(base(
                info,
                PType::AnalogOutputStatus,
                i,
                RVal::F64(m.value),
                m.flags.value,
                m.time,
            ));
        }
    }
    fn handle_analog_output_command_event(
        &mut self,
        info: HeaderInfo,
        iter: &mut dyn Iterator<Item = (AnalogOutputCommandEvent, u16)>,
    ) {
        for (m, i) in iter {
            let mut it = base(
                info,
                PType::AnalogCommandEvent,
                i,
                RVal::Cmd(format!("{:?}", m.commanded_value)),
                0,
                m.time,
            );
            if let Item::M(r) = &mut it {
                r.status = Some(m.status.as_u8());
            }
            self.push(it);
        }
    }
    fn handle_binary_output_command_event(
        &mut self,
        info: HeaderInfo,
        iter: &mut dyn Iterator<Item = (BinaryOutputCommandEvent, u16)>,
    ) {
        for (m, i) in iter {
            let mut it = base(
                info,
                PType::BinaryCommandEvent,
                i,
                RVal::Bool(m.commanded_state),
                0,
                m.time,
            );
            if let Item::M(r) = &mut it {
                r.status = Some(m.status.as_u8());
            }
            self.push(it);
        }
    }
    fn handle_unsigned_integer(
        &mut self,
        info: HeaderInfo,
        iter: &mut dyn Iterator<Item = (UnsignedInteger, u16)>,
    ) {
        for (m, i) in iter {
            self.push(base(
                info,
                PType::UnsignedInteger,
                i,
                RVal::U8(m.value),
                0,
                None,
            ));
        }
    }
    fn handle_octet_string<'a>(
        &mut self,
        info: HeaderInfo,
        iter: &'a mut dyn Iterator<Item = (&'a [u8], u16)>,
    ) {
        for (m, i) in iter {
            self.push(base(
                info,
                PType::OctetString,
                i,
                RVal::Bytes(m.to_vec()),
                0,
                None,
            ));
        }
    }
    fn handle_device_attribute(&mut self, _info: HeaderInfo, attr: AnyAttribute) {
        self.push(Item::Attr(format!("{attr:?}")));
    }
    fn handle_abs_time(&mut self, _info: HeaderInfo, time: Timestamp) {
        self.push(Item::AbsTime(time.raw_value()));
    }
}
