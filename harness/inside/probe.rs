//! H5 probes: read-only counters bumped from inside the session loops.
//! Used for (i) the spin rule and (ii) quiescence detection; no behavioural
//! oracle depends on them.
use std::sync::atomic::{AtomicU64, Ordering};

static OUT_IDLE: AtomicU64 = AtomicU64::new(0);
static MASTER_SCHED: AtomicU64 = AtomicU64::new(0);

/// called at the top of `OutstationSession::run_idle_state`
pub fn outstation_idle() {
    OUT_IDLE.fetch_add(1, Ordering::Relaxed);
    spin_guard(&O_LAST, &O_CONSEC, "outstation idle state");
}

/// called on every iteration of the master's scheduling loop
pub fn master_sched() {
    MASTER_SCHED.fetch_add(1, Ordering::Relaxed);
    spin_guard(&M_LAST, &M_CONSEC, "master scheduler");
}

// ---- spin guard -----------------------------------------------------------------
// Under the paused clock a loop that never rests keeps the runtime busy, virtual time
// never advances and the harness would hang. The guard counts consecutive passes during
// which neither virtual time nor the pipe activity counter moved; beyond any number a
// correct endpoint can need, it records the fact and stops the endpoint task by panicking
// (the harness then reports the spin as a violation of the scheduling property).
pub const SPIN_LIMIT: u64 = 200_000;
static M_LAST: std::sync::Mutex<Option<(tokio::time::Instant, u64)>> = std::sync::Mutex::new(None);
static M_CONSEC: AtomicU64 = AtomicU64::new(0);
static O_LAST: std::sync::Mutex<Option<(tokio::time::Instant, u64)>> = std::sync::Mutex::new(None);
static O_CONSEC: AtomicU64 = AtomicU64::new(0);
static SPINS: AtomicU64 = AtomicU64::new(0);

fn spin_guard(last: &std::sync::Mutex<Option<(tokio::time::Instant, u64)>>, consec: &AtomicU64, who: &str) {
    // only meaningful inside a runtime with a (paused) clock
    if tokio::runtime::Handle::try_current().is_err() {
        return;
    }
    let cur = (tokio::time::Instant::now(), crate::verif::io::activity());
    let mut g = last.lock().unwrap_or_else(|e| e.into_inner());
    if *g == Some(cur) {
        let n = consec.fetch_add(1, Ordering::Relaxed) + 1;
        if n > SPIN_LIMIT {
            consec.store(0, Ordering::Relaxed);
            *g = None;
            drop(g);
            SPINS.fetch_add(1, Ordering::Relaxed);
            panic!("verif: spin detected: {who} made {SPIN_LIMIT} consecutive passes while virtual time and the wire stood still");
        }
    } else {
        *g = Some(cur);
        consec.store(0, Ordering::Relaxed);
    }
}

/// number of times an endpoint was stopped because it was spinning
pub fn spins() -> u64 {
    SPINS.load(Ordering::Relaxed)
}

pub fn outstation_idle_count() -> u64 {
    OUT_IDLE.load(Ordering::Relaxed)
}
pub fn master_sched_count() -> u64 {
    MASTER_SCHED.load(Ordering::Relaxed)
}
pub fn ticks() -> u64 {
    outstation_idle_count() + master_sched_count()
}
