//! H5 probes: read-only counters bumped from inside the session loops.
//! Used for (i) the spin rule and (ii) quiescence detection; no behavioural
//! oracle depends on them.
use std::sync::atomic::{AtomicU64, Ordering};

static OUT_IDLE: AtomicU64 = AtomicU64::new(0);
static MASTER_SCHED: AtomicU64 = AtomicU64::new(0);

/// called at the top of `OutstationSession::run_idle_state`
pub fn outstation_idle() {
    OUT_IDLE.fetch_add(1, Ordering::Relaxed);
    spin_guard(&O_LAST, &O_CONSEC, "outstation idle state");
}

/// called on every iteration of the master's scheduling loop
pub fn master_sched() {
    MASTER_SCHED.fetch_add(1, Ordering::Relaxed);
    spin_guard(&M_LAST, &M_CONSEC, "master scheduler");
}

// ---- spin guard -----------------------------------------------------------------
// Under the paused clock a loop that never rests keeps the runtime busy, virtual time
// never advances and the harness would hang. The guard counts consecutive passes during
// which neither virtual time nor the pipe activity counter moved; beyond any number a
// correct endpoint can need, it records the fact and stops the endpoint task by panicking
// (the harness then reports the spin as a violation of the scheduling property).
pub const SPIN_LIMIT: u64 = 200_000;
static M_LAST: std::sync::Mutex<Option<(tokio::time::Instant, u64)>> = std::sync::Mutex::new(None);
static M_CONSEC: AtomicU64 = AtomicU64::new(0);
static O_LAST: std::sync::Mutex<Option<(tokio::time::Instant, u64)>> = std::sync::Mutex::new(None);
static O_CONSEC: AtomicU64 = AtomicU64::new(0);
static SPINS: AtomicU64 = AtomicU64::new(0);

fn spin_guard(
    last: &std::sync::Mutex<Option<(tokio::time::Instant, u64)>>,
    consec: &AtomicU64,
    who: &str,
) {
    // only meaningful inside a runtime with a (paused) clock
    if tokio::runtime::Handle::try_current().is_err() {
        return;
    }
    let cur = (tokio::time::Instant::now(), crate::verif::io::activity());
    let mut g = last.lock().unwrap_or_else(|e| e.into_inner());
    if *g == Some(cur) {
        let n = consec.fetch_add(1, Ordering::Relaxed) + 1;
        if n > SPIN_LIMIT {
            consec.store(0, Ordering::Relaxed);
            *g = None;
            drop(g);
            SPINS.fetch_add(1, Ordering::Relaxed);
            panic!("verif: spin detected: {who} made {SPIN_LIMIT} consecutive passes while virtual time and the wire stood still");
        }
    } else {
        *g = Some(cur);
        consec.store(0, Ordering::Relaxed);
    }
}

/// number of times an endpoint was stopped because it was spinning
pub fn spins() -> u64 {
    SPINS.load(Ordering::Relaxed)
}

pub fn outstation_idle_count() -> u64 {
    OUT_IDLE.load(Ordering::Relaxed)
}
pub fn master_sched_count() -> u64 {
    MASTER_SCHED.load(Ordering::Relaxed)
}
pub fn ticks() -> u64 {
    outstation_idle_count() + master_sched_count()
}

// ---- H6: structural audit of the outstation's event buffer -------------------------
// The facts are produced inside the database (under its own mutex) at every point where
// that mutex is about to be released by the outstation or by a user transaction; the audit
// below recomputes every counter from the records and checks the list's links. Failures are
// queued for the running check (`take_audit_failures`), never panicked on.
use crate::outstation::database::EventBufferConfig;
use crate::outstation::BufferState;

pub struct ListFacts {
    pub forward: Vec<usize>,
    pub backward: Vec<usize>,
    pub size: usize,
    pub slots: usize,
    pub free: Vec<usize>,
    pub is_free: Vec<bool>,
}

pub struct RecordFacts {
    pub id: u64,
    pub index: u16,
    pub class: u8,
    pub type_tag: u8,
    pub state: u8,
}

pub struct BufferFacts {
    pub list: ListFacts,
    pub records: Vec<RecordFacts>,
    pub total: BufferState,
    pub written: BufferState,
    pub config: EventBufferConfig,
    pub is_overflown: bool,
    pub next: u64,
}

#[derive(Clone, Debug)]
pub struct AuditFailure {
    pub site: &'static str,
    pub rule: &'static str,
    pub detail: String,
}

static AUDITS: AtomicU64 = AtomicU64::new(0);
static AUDIT_RECORDS: AtomicU64 = AtomicU64::new(0);
static AUDIT_FAILS: std::sync::Mutex<Vec<AuditFailure>> = std::sync::Mutex::new(Vec::new());
static AUDIT_STATES: std::sync::Mutex<Option<std::collections::HashSet<u64>>> =
    std::sync::Mutex::new(None);
static AUDIT_SITES: std::sync::Mutex<Option<std::collections::BTreeMap<&'static str, u64>>> =
    std::sync::Mutex::new(None);

fn type_counts(s: &BufferState) -> [usize; 8] {
    let t = &s.types;
    [
        t.num_binary_input,
        t.num_double_bit_binary_input,
        t.num_binary_output_status,
        t.num_counter,
        t.num_frozen_counter,
        t.num_analog,
        t.num_analog_output_status,
        t.num_octet_string,
    ]
}

fn class_counts(s: &BufferState) -> [usize; 3] {
    [
        s.classes.num_class_1,
        s.classes.num_class_2,
        s.classes.num_class_3,
    ]
}

fn type_max(c: &EventBufferConfig) -> [usize; 8] {
    [
        c.max_binary as usize,
        c.max_double_binary as usize,
        c.max_binary_output_status as usize,
        c.max_counter as usize,
        c.max_frozen_counter as usize,
        c.max_analog as usize,
        c.max_analog_output_status as usize,
        c.max_octet_string as usize,
    ]
}

pub fn audit_event_buffer(site: &'static str, f: BufferFacts) {
    AUDITS.fetch_add(1, Ordering::Relaxed);
    AUDIT_RECORDS.fetch_add(f.records.len() as u64, Ordering::Relaxed);
    {
        let mut g = AUDIT_SITES.lock().unwrap_or_else(|e| e.into_inner());
        *g.get_or_insert_with(Default::default)
            .entry(site)
            .or_insert(0) += 1;
    }
    let mut fails: Vec<(&'static str, String)> = vec![];
    // the list
    let l = &f.list;
    if l.forward.len() != l.size {
        fails.push((
            "L1.forward_length",
            format!(
                "walk from the head visits {} entries, size says {}",
                l.forward.len(),
                l.size
            ),
        ));
    }
    let mut rev = l.backward.clone();
    rev.reverse();
    if rev != l.forward {
        fails.push((
            "L1.links_disagree",
            format!("forward {:?} backward {:?}", l.forward, l.backward),
        ));
    }
    let mut seen = vec![0u8; l.slots];
    for &i in &l.forward {
        if i < l.slots {
            seen[i] += 1;
            if l.is_free[i] {
                fails.push(("L2.linked_entry_marked_free", format!("slot {i}")));
            }
        }
    }
    for &i in &l.free {
        if i >= l.slots {
            fails.push((
                "L2.free_index_out_of_range",
                format!("slot {i} of {}", l.slots),
            ));
            continue;
        }
        seen[i] += 1;
        if !l.is_free[i] {
            fails.push(("L2.free_stack_entry_in_use", format!("slot {i}")));
        }
    }
    if let Some(i) = seen.iter().position(|&n| n != 1) {
        fails.push((
            "L3.slot_not_accounted_once",
            format!(
                "slot {i} is referenced {} times by the list and the free stack together",
                seen[i]
            ),
        ));
    }
    let max = type_max(&f.config);
    if l.slots > max.iter().sum::<usize>() {
        fails.push((
            "L4.more_slots_than_capacity",
            format!("{} slots, capacity {}", l.slots, max.iter().sum::<usize>()),
        ));
    }
    // the counters
    let mut by_type = [0usize; 8];
    let mut by_class = [0usize; 3];
    let mut w_type = [0usize; 8];
    let mut w_class = [0usize; 3];
    let mut prev: Option<u64> = None;
    for r in &f.records {
        by_type[r.type_tag as usize] += 1;
        by_class[r.class as usize - 1] += 1;
        if r.state == 2 {
            w_type[r.type_tag as usize] += 1;
            w_class[r.class as usize - 1] += 1;
        }
        if prev.map_or(false, |p| p >= r.id) || r.id >= f.next {
            fails.push((
                "A4.ids_not_increasing",
                format!("id {} after {:?}, next {}", r.id, prev, f.next),
            ));
        }
        prev = Some(r.id);
    }
    if f.records.len() != l.size {
        fails.push((
            "A6.iteration_length",
            format!("{} records iterated, size {}", f.records.len(), l.size),
        ));
    }
    if type_counts(&f.total) != by_type || class_counts(&f.total) != by_class {
        fails.push((
            "A1.total_counters",
            format!(
                "counters say types {:?} classes {:?}; the buffer holds types {:?} classes {:?}",
                type_counts(&f.total),
                class_counts(&f.total),
                by_type,
                by_class
            ),
        ));
    }
    if type_counts(&f.written) != w_type || class_counts(&f.written) != w_class {
        fails.push((
            "A2.written_counters",
            format!(
                "counters say types {:?} classes {:?}; written records are types {:?} classes {:?}",
                type_counts(&f.written),
                class_counts(&f.written),
                w_type,
                w_class
            ),
        ));
    }
    for t in 0..8 {
        if by_type[t] > max[t] {
            fails.push((
                "A3.type_over_capacity",
                format!("type {t}: {} events, capacity {}", by_type[t], max[t]),
            ));
        }
    }
    if f.is_overflown && !(0..8).any(|t| max[t] > 0 && by_type[t] >= max[t]) {
        fails.push((
            "A5.overflow_without_full_type",
            format!("types {:?} capacities {:?}", by_type, max),
        ));
    }
    // what was seen
    {
        let mut h: u64 = 0xcbf29ce484222325;
        let mut mix = |v: u64| {
            h ^= v;
            h = h.wrapping_mul(0x100000001b3);
        };
        for t in 0..8 {
            mix(by_type[t].min(6) as u64);
            mix(w_type[t].min(3) as u64);
            mix((max[t] > 0 && by_type[t] >= max[t]) as u64);
        }
        for c in 0..3 {
            mix(by_class[c].min(3) as u64);
            mix(w_class[c].min(2) as u64);
        }
        mix(f.is_overflown as u64);
        mix(f.records.iter().filter(|r| r.state == 1).count().min(3) as u64);
        mix(l.free.len().min(4) as u64);
        let mut g = AUDIT_STATES.lock().unwrap_or_else(|e| e.into_inner());
        let set = g.get_or_insert_with(Default::default);
        if set.len() < 200_000 {
            set.insert(h);
        }
    }
    if !fails.is_empty() {
        let mut g = AUDIT_FAILS.lock().unwrap_or_else(|e| e.into_inner());
        for (rule, detail) in fails {
            if g.len() < 200 {
                g.push(AuditFailure { site, rule, detail });
            }
        }
    }
}

pub fn take_audit_failures() -> Vec<AuditFailure> {
    std::mem::take(&mut *AUDIT_FAILS.lock().unwrap_or_else(|e| e.into_inner()))
}

/// (audits run, records walked, distinct abstract buffer states audited)
pub fn audit_stats() -> (u64, u64, u64) {
    let d = AUDIT_STATES
        .lock()
        .unwrap_or_else(|e| e.into_inner())
        .as_ref()
        .map_or(0, |s| s.len() as u64);
    (
        AUDITS.load(Ordering::Relaxed),
        AUDIT_RECORDS.load(Ordering::Relaxed),
        d,
    )
}

pub fn audit_sites() -> Vec<(&'static str, u64)> {
    AUDIT_SITES
        .lock()
        .unwrap_or_else(|e| e.into_inner())
        .as_ref()
        .map_or(vec![], |m| m.iter().map(|(k, v)| (*k, *v)).collect())
}
