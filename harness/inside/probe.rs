//! H5 probes: read-only counters bumped from inside the session loops.
//! Used for (i) the spin rule and (ii) quiescence detection; no behavioural
//! oracle depends on them.
use std::sync::atomic::{AtomicU64, Ordering};

static OUT_IDLE: AtomicU64 = AtomicU64::new(0);
static MASTER_SCHED: AtomicU64 = AtomicU64::new(0);

/// called at the top of `OutstationSession::run_idle_state`
pub fn outstation_idle() {
    OUT_IDLE.fetch_add(1, Ordering::Relaxed);
}

/// called on every iteration of the master's scheduling loop
pub fn master_sched() {
    MASTER_SCHED.fetch_add(1, Ordering::Relaxed);
}

pub fn outstation_idle_count() -> u64 {
    OUT_IDLE.load(Ordering::Relaxed)
}
pub fn master_sched_count() -> u64 {
    MASTER_SCHED.load(Ordering::Relaxed)
}
pub fn ticks() -> u64 {
    outstation_idle_count() + master_sched_count()
}
