//! Verification harness compiled INTO the dnp3 crate under `--cfg dnp3_verif`
//! (hook H1).  See /verif/DESIGN.md.
#![allow(
    missing_docs,
    unreachable_pub,
    dead_code,
    unused,
    missing_copy_implementations,
    trivial_casts,
    non_snake_case,
    clippy::all
)]

pub mod gen;
pub mod io;
pub mod out;
pub mod probe;
pub mod rec;
pub mod refcodec;
pub mod rng;
pub mod sim;
pub mod trace;
pub mod util;

pub mod checks;

/// Parsed command line of one shard process
#[derive(Clone, Debug)]
pub struct ShardArgs {
    pub check: String,
    pub seed: u64,
    pub shard: u64,
    pub nshards: u64,
    pub tier: String,
    /// scale factor for budgets (1.0 = quick)
    pub scale: f64,
    pub out: String,
    pub replay: Option<String>,
    pub extra: Vec<String>,
}

impl ShardArgs {
    pub fn thorough(&self) -> bool {
        self.tier == "thorough"
    }
    /// scale an iteration budget
    pub fn n(&self, quick: u64) -> u64 {
        ((quick as f64) * self.scale).max(1.0) as u64
    }
    /// rng for this shard and a named stream
    pub fn rng(&self, stream: &str) -> rng::Rng {
        let mut h = 0xcbf29ce484222325u64;
        for b in stream.bytes() {
            h ^= b as u64;
            h = h.wrapping_mul(0x100000001b3);
        }
        rng::Rng::new(
            self.seed
                .wrapping_mul(0x9E3779B97F4A7C15)
                .wrapping_add(self.shard.wrapping_mul(0xD1B54A32D192ED03))
                ^ h,
        )
    }
}

fn parse_args(args: &[String]) -> Result<ShardArgs, String> {
    let mut a = ShardArgs {
        check: String::new(),
        seed: 1,
        shard: 0,
        nshards: 1,
        tier: "quick".into(),
        scale: 1.0,
        out: String::new(),
        replay: None,
        extra: vec![],
    };
    let mut i = 0;
    while i < args.len() {
        let k = args[i].as_str();
        let v = args.get(i + 1).cloned();
        let need = |v: Option<String>| v.ok_or_else(|| format!("missing value for {k}"));
        match k {
            "--check" => {
                a.check = need(v)?;
                i += 1
            }
            "--seed" => {
                a.seed = need(v)?.parse().map_err(|e| format!("{e}"))?;
                i += 1
            }
            "--shard" => {
                a.shard = need(v)?.parse().map_err(|e| format!("{e}"))?;
                i += 1
            }
            "--nshards" => {
                a.nshards = need(v)?.parse().map_err(|e| format!("{e}"))?;
                i += 1
            }
            "--tier" => {
                a.tier = need(v)?;
                i += 1
            }
            "--scale" => {
                a.scale = need(v)?.parse().map_err(|e| format!("{e}"))?;
                i += 1
            }
            "--out" => {
                a.out = need(v)?;
                i += 1
            }
            "--replay" => {
                a.replay = Some(need(v)?);
                i += 1
            }
            other => a.extra.push(other.to_string()),
        }
        i += 1;
    }
    if a.check.is_empty() {
        return Err("no --check given".into());
    }
    Ok(a)
}

/// entry point called by the driver binary; returns the process exit code
/// 0 = ran to completion (violations, if any, are in the out file), 3 = harness error
pub fn run(args: Vec<String>) -> i32 {
    run_with(args, |a| checks::dispatch(a))
}

/// same, with the dispatch supplied by the caller (used by the binding harness, hook H4)
pub fn run_with(args: Vec<String>, dispatch: impl FnOnce(&ShardArgs) -> Result<(), String>) -> i32 {
    let a = match parse_args(&args) {
        Ok(a) => a,
        Err(e) => {
            eprintln!("vh: {e}");
            return 3;
        }
    };
    util::install_panic_hook();
    trace::install();
    out::begin(&a);
    let res = std::panic::catch_unwind(std::panic::AssertUnwindSafe(|| dispatch(&a)));
    match res {
        Ok(Ok(())) => {
            out::finish(&a, None);
            0
        }
        Ok(Err(e)) => {
            out::finish(&a, Some(format!("harness error: {e}")));
            3
        }
        Err(p) => {
            let msg = util::panic_payload_to_string(&p);
            // a panic that unwound through the harness thread: when it was raised inside the library's own sources (a call of
            // the public API by the harness, e.g. a database transaction) it is the library's panic, not a harness error
            let rec = util::take_panics().into_iter().rev().find(|r| r.message == msg);
            match rec {
                Some(r) if r.location.contains("dnp3/src/") && !r.location.contains("/verif/") => {
                    let own = a.check.to_uppercase();
                    out::violation(
                        &own,
                        &format!("{own}.panic_in_library_call"),
                        &util::norm_location(&r.location),
                        out::J::s(format!("{} at {} (thread {})", r.message, r.location, r.thread)),
                        out::J::Null,
                    );
                    out::finish(&a, None);
                    0
                }
                _ => {
                    out::finish(&a, Some(format!("harness panic: {msg}")));
                    3
                }
            }
        }
    }
}
