//! `vh` — shard driver; all logic lives in the module included into dnp3 by hook H1.
fn main() {
    let args: Vec<String> = std::env::args().skip(1).collect();
    std::process::exit(dnp3::verif::run(args));
}
